package checks

import (
	"fmt"

	"verif/explore"
	h "verif/harness"
	"verif/model"
	u "verif/universe"
)

// C09 — key identity: type+name and type+group never mix; duplicates rejected
// (style I over a result-declaration grammar inside style-H contexts, followed
// by a probe sweep over the whole key universe).

// provideVerdictMonitor: a Provide is rejected exactly when it provides a
// single key twice within its own results or one its home scope already has.
func provideVerdictMonitor(prefix string) func(c *Ctx) []Violation {
	return func(c *Ctx) []Violation {
		st := c.Step
		if st.Op.Kind != h.OpProvide || st.Op.Fn == nil {
			return nil
		}
		f := st.Op.Fn
		extra := &model.Ctor{Inst: "new", F: f, Home: st.Op.Scope, Orig: st.Op.Scope, P: f.PLeaves(), R: f.RLeaves()}
		if f.Export {
			extra.Home = 0
		}
		dup := dupOrInvalid(st.Model, extra)
		c.Hit("provide_verdicts_checked")
		if dup {
			c.Hit("provide_duplicates")
		}
		if dup && st.V.OK {
			return []Violation{{Rule: prefix + "/duplicate-key-accepted", Detail: fmt.Sprintf("%s accepted although one of its single keys is already provided by the same scope or twice within its results", st.Op)}}
		}
		if !dup && !st.V.OK {
			return []Violation{{Rule: prefix + "/valid-provide-rejected", Detail: fmt.Sprintf("%s => %s (%s)", st.Op, st.V.Class(), st.V.Msg)}}
		}
		return nil
	}
}

var (
	// declarations via options
	kA      = u.F("kA", "", "A")
	kAn     = u.F("kAn", "", "A", u.Name("n"))
	kAm     = u.F("kAm", "", "A", u.Name("m"))
	kAg     = u.F("kAg", "", "A", u.Group("g"))
	kAh     = u.F("kAh", "", "A", u.Group("h"))
	kAfl    = u.F("kAfl", "", "[A]", u.GroupFlat("g", 2))
	kAasI   = u.F("kAasI", "", "A", u.As("IA"))
	kAasII  = u.F("kAasII", "", "A", u.As("IA", "IAB"))
	kBasI   = u.F("kBasI", "", "B", u.As("IA"))
	kIown   = u.F("kIown", "", "IAB", u.As("IAB"))
	kIasI   = u.F("kIasI", "", "IAB", u.As("IA"))
	kIboth  = u.F("kIboth", "", "IAB", u.As("IAB", "IA"))
	kIboth2 = u.F("kIboth2", "", "IAB", u.As("IA", "IAB"))
	kAnAsI  = u.F("kAnAsI", "", "A", u.Name("n"), u.As("IA"))
	kAgAsI  = u.F("kAgAsI", "", "A", u.Group("g"), u.As("IA"))
	kIgBoth = u.F("kIgBoth", "", "IAB", u.Group("g"), u.As("IAB", "IA"))
	kIplain = u.F("kIplain", "", "IAB")
	// declarations via result-object tags, nesting 1-2
	tA     = u.F("tA", "", "{A}")
	tAn    = u.F("tAn", "", "{A@n}")
	tAnn   = u.F("tAnn", "", "{{A@n}}")
	tAg    = u.F("tAg", "", "{A+g}")
	tAgg   = u.F("tAgg", "", "{{A+g}}")
	tAfl   = u.F("tAfl", "", "{[A]+g!2}")
	tAA    = u.F("tAA", "", "A,A")        // duplicate, positional
	tAAo   = u.F("tAAo", "", "{A;A}")     // duplicate in one object
	tAAn   = u.F("tAAn", "", "A,{B;{A}}") // duplicate through nesting depth 2
	tAnAn  = u.F("tAnAn", "", "{A@n;{A@n}}")
	tAnAm  = u.F("tAnAm", "", "{A@n;A@m}") // fine
	tAgAg  = u.F("tAgAg", "", "{A+g;A+g}") // groups never conflict
	tAAg   = u.F("tAAg", "", "{A;A+g;A@n}")
	tAB    = u.F("tAB", "", "A,B")
	tAasAA = u.F("tAasAA", "", "A,A", u.As("IA")) // duplicate under the As key
	// As applied to the fields of a result object (the same object type with
	// different As lists, and without)
	tAasI   = u.F("tAasI", "", "{A}", u.As("IA"))
	tAasIAB = u.F("tAasIAB", "", "{A}", u.As("IAB"))
	tAnnAsI = u.F("tAnnAsI", "", "{{A@n}}", u.As("IA"))
	tABasI  = u.F("tABasI", "", "{A;{A@n}}", u.As("IA", "IAB"))
	tAB2    = u.F("tAB2", "", "{A;{A@n}}")
	tIown2  = u.F("tIown2", "", "{IAB}", u.As("IAB", "IA")) // the field's own type is one of the listed interfaces
	tIownN  = u.F("tIownN", "", "{{IAB@n}}", u.As("IA", "IAB"))
	// As on a result object that also has a group field, before or after the plain one
	tGAasI = u.F("tGAasI", "", "{A+g;A}", u.As("IA"))
	tAGasI = u.F("tAGasI", "", "{A;A+g}", u.As("IA"))
	tGBasI = u.F("tGBasI", "", "{B+h;{A@n}}", u.As("IA", "IAB"))
	// probes
	qI      = u.F("qI", "IA", "")
	qII     = u.F("qII", "IAB", "")
	qIn     = u.F("qIn", "{IA@n}", "")
	qAn     = u.F("qAn", "{A@n}", "")
	qAm     = u.F("qAm", "{A@m}", "")
	qBoth   = u.F("qBoth", "IA,IAB", "")
	qAll    = u.F("qAll", "{A?;A@n?;A@m?;IA?;IAB?;IA@n?;B?}", "")
	qGroups = u.F("qGroups", "{A*g;A*h;IA*g;IAB*g;B*g}", "")
	qSliceA = u.F("qSliceA", "{[A]?}", "") // the slice type itself is never provided by a flatten result
)

func init() {
	explore.Register(&explore.Check{
		ID:    "C09",
		Rule:  "Every history of <=2-3 registrations drawn from a grammar of result declarations (plain, two names, two groups, flatten, As with one/two interfaces, As on an interface-typed result including its own type, Name x As, Group x As; via option or via result-object tag at nesting 0-2; duplicate keys positional / in one object / through nesting / under an As key) placed in the root, a child or exported, followed by a probe sweep over the whole key universe (concrete and interface types x no name / two names, x two groups) from both scopes.",
		Units: c09Units,
		Assumptions: []string{
			"with As the model lists exactly the interfaces given (all sharing one instance); the concrete type is not a key",
		},
	})
}

func c09Units(tier string) []Unit {
	q := quick(tier)
	mons := []explore.Monitor{provideVerdictMonitor("C09"), resolutionMonitor("C09"), availabilityMonitor("C09"), singletonMonitor("C09")}
	probes := []*uFunc{iA, qI, qII, qIn, qAn, qAm, qBoth, qAll, qGroups, iB, qSliceA}
	var units []Unit
	add := func(name string, ctors []*uFunc, provides int) {
		a := alpha{scopes: []int{0, 1}, ctors: ctors, export: true, invokes: probes}
		units = append(units, Unit{Sc: &Scenario{Name: name, Prefix: prefixChild, Alphabet: a.ops(), Depth: provides + 1,
			Budget: explore.Budget{Provides: provides, Invokes: 1, Rejected: 1}, Monitors: mons}})
	}
	opts := []*uFunc{kA, kAn, kAm, kAg, kAh, kAfl, kAasI, kAasII, kBasI, kAnAsI, kAgAsI, kIplain}
	ifaces := []*uFunc{kA, kIplain, kIown, kIasI, kIboth, kIboth2, kIgBoth, kAasI, kAasII}
	tags := []*uFunc{kA, kAn, tA, tAn, tAnn, tAg, tAgg, tAfl, tAnAm, tAgAg, tAAg, tAB}
	dups := []*uFunc{kA, kAn, tAA, tAAo, tAAn, tAnAn, tAasAA, kAasI}
	add("options", opts, 3)
	add("as-on-interfaces", ifaces, 3)
	add("tags-and-nesting", tags, 3)
	add("duplicates", dups, 3)
	add("as-on-result-objects", []*uFunc{tA, tAasI, tAasIAB, tAnn, tAnnAsI, tABasI, tAB2}, 3)
	add("as-on-result-objects-with-groups", []*uFunc{tA, tGAasI, tAGasI, tGBasI, kAn, tAasI}, 3)
	add("as-on-interface-fields", []*uFunc{tIown2, tIownN, kIplain, kIboth}, 3)
	if !q {
		add("options-4", []*uFunc{kA, kAn, kAg, kAasI, kAnAsI, kAgAsI}, 4)
		add("mixed-4", []*uFunc{kA, kIboth, kIgBoth, tAnn, tAAn, tAasAA}, 4)
	}
	return units
}
