package checks

import (
	"fmt"

	"verif/explore"
	h "verif/harness"
	"verif/model"
	u "verif/universe"
)

// Style-H checks that share the resolution oracle: C02, C03, C04, C08, C10,
// C11, C12.

var (
	pB0     = u.F("pB0", "", "B")                      // B without dependencies
	kAacw   = u.F("kAacw", "", "A", u.As("IA", "IAB")) // A under IA and IAB
	kAccw   = u.F("kAccw", "", "A", u.As("IC", "IAB")) // A under IC and IAB
	qC      = u.F("qC", "IC", "")
	kAnAsII = u.F("kAnAsII", "", "A", u.Name("n"), u.As("IA", "IAB")) // A@n under IA and IAB
	pCiin   = u.F("pCiin", "{IAB@n}", "C")
	qIIn    = u.F("qIIn", "{IAB@n}", "")
	qIIno   = u.F("qIIno", "{IAB@n?}", "")
	pBaa    = u.F("pBaa", "{A;A@n}", "B")         // the same type twice, unnamed then named
	pBaa2   = u.F("pBaa2", "{{A@n};A}", "B")      // named (nested) then unnamed
	pAg     = u.F("pAg", "", "{A;A+g}")           // one constructor, direct value and group member
	pBe     = u.F("pBe", "A", "B,error")          // may fail by error
	pAe     = u.F("pAe", "", "A,error")           // may fail by error
	pDd     = u.F("pDd", "", "D")                 // bystander
	dABa    = u.F("dABa", "A,B", "A")             // decorator of A that needs B (B's constructor needs A)
	iGA     = u.F("iGA", "{A;A*g}", "")           // same constructor through two paths
	pBo     = u.F("pBo", "{A?}", "B")             // optional edge
	pBno    = u.F("pBno", "{{A?}}", "B")          // optional edge in a nested object
	pBn2    = u.F("pBn2", "{A@n?}", "B")          // named optional edge
	pAn     = u.F("pAn", "", "A", u.Name("n"))    // named A
	pCb     = u.F("pCb", "B", "C")                // required
	pCob    = u.F("pCob", "{B?}", "C")            // optional
	pCgb    = u.F("pCgb", "{B*g}", "C")           // through a group
	fBgA    = u.F("fBgA", "A", "B", u.Group("g")) // group member B needing A
	iCo     = u.F("iCo", "{C?}", "")
	iBo     = u.F("iBo", "{B?}", "")
	iAo     = u.F("iAo", "{A?}", "")
	iNest   = u.F("iNest", "{{B?};A?}", "")
	pBnr    = u.F("pBnr", "{{A}}", "B")               // required edge in a nested object
	pBne    = u.F("pBne", "", "B,error", u.Name("n")) // named value whose constructor may fail
	iBnO    = u.F("iBnO", "{B@n?}", "")

	fG1   = u.F("fG1", "", "A", u.Group("g"))
	fG1b  = u.F("fG1b", "", "A", u.Group("g"))
	fG2   = u.F("fG2", "", "{A+g;A+g}")
	fFl0  = u.F("fFl0", "", "[A]", u.GroupFlat("g", 0))
	fFl1  = u.F("fFl1", "", "[A]", u.GroupFlat("g", 1))
	fFl2  = u.F("fFl2", "", "[A]", u.GroupFlat("g", 2))
	fFlo  = u.F("fFlo", "", "{[A]+g!2}")
	fAs   = u.F("fAs", "", "A", u.Group("g"), u.As("IA"))
	fH    = u.F("fH", "", "A", u.Group("h"))
	fBg   = u.F("fBg", "", "B", u.Group("g"))
	fGdep = u.F("fGdep", "B", "A", u.Group("g"))   // member of g that needs B
	pB0b  = u.F("pB0b", "", "B")                   // a second provider of B
	fGH   = u.F("fGH", "{A*h}", "A", u.Group("g")) // member of g that consumes group h
	fHb   = u.F("fHb", "", "A", u.Group("h"))
	fAsII = u.F("fAsII", "", "A", u.Group("g"), u.As("IA", "IAB")) // member of g under two interfaces
	iGII  = u.F("iGII", "{IAB*g}", "")
	iGI   = u.F("iGI", "{IA*g}", "")
	iGH   = u.F("iGH", "{A*h}", "")
	iGB   = u.F("iGB", "{B*g}", "")
	iGG   = u.F("iGG", "{A*g;A*g}", "")

	pMB   = u.F("pMB", "", "{B;A+g}")   // multi-result: B and a member of g
	pMC   = u.F("pMC", "", "{C;A+h}")   // multi-result: C and a member of h
	pMBC  = u.F("pMBC", "B", "{C;A+g}") // C (needs B) and a member of g
	iS1   = u.F("iS1", "{A*g~;B}", "")
	iS2   = u.F("iS2", "{B;A*g~}", "")
	iS3a  = u.F("iS3a", "{A*g~;B;C}", "")
	iS3b  = u.F("iS3b", "{B;A*g~;C}", "")
	iS3c  = u.F("iS3c", "{C;B;A*g~}", "")
	iSN   = u.F("iSN", "{{A*g~};B}", "")
	iSH   = u.F("iSH", "{A*h~;A*g~;C}", "")
	iSpos = u.F("iSpos", "{A*g~},B", "")
	pCs   = u.F("pCs", "{A*g~}", "C")          // constructor with a soft dependency
	iSN2  = u.F("iSN2", "{A*g~;{A*h~;B}}", "") // soft group before a nested object that has a soft group and needs B
	iSN3  = u.F("iSN3", "{A*g~;{B}}", "")
	iSN4  = u.F("iSN4", "{{A*h~;B};A*g~}", "")
	pMBem = u.F("pMBem", "", "B,error,{A+g}")   // B, then the error, then a member of g
	pXsh  = u.F("pXsh", "{A*g~}", "{C;A+h}")    // soft view of g, feeder of h
	pCsn  = u.F("pCsn", "{A*g~;{A*h~;B}}", "C") // the same shape as a constructor's parameters
)

func init() {
	reg := func(id, rule string, units func(string) []Unit, assume ...string) {
		explore.Register(&explore.Check{ID: id, Rule: rule, Units: units, Assumptions: assume})
	}
	reg("C02", "All histories over multi-path, re-entry, sibling-scope and retry-after-failure alphabets up to the bounds; over the whole execution log: successful exits per function <= 1, no entry after success, no re-entry, one instance per result.", c02Units,
		"a function instance is one accepted registration; tokens carry a process-unique serial standing for pointer identity")
	// unbounded re-entry of a constructor or decorator ends in a fatal stack
	// overflow before any user function is entered twice: for C02 the death
	// of the worker on a transition is itself the violation
	explore.Lookup("C02").DeathIsViolation = true
	reg("C03", "All histories over alphabets with bystander constructors in every scope, soft feeders and the non-executing ops Visualize/String; executed set of every Invoke compared with the model's may-run / must-run closures.", c03Units,
		"may-run is an over-approximation, must-run an under-approximation (DESIGN.md §3.6-4)")
	reg("C04", "All dependency chains/trees of depth <=3 over required / optional / named-optional / nested-object / group edges with every node present or missing in every placement, invoked from every scope; three-valued missing/optional oracle.", c04Units,
		"abstains where a visible decorator produces the key (§3.6-3) and on cyclic graphs")
	reg("C08", "All scope-tree shapes with <=3 scopes, every interleaving of scope creation with registrations (plain and exported, two providers of the same key, a decorator) and invocations from every scope; availability and nearest-provider provenance oracles.", c08Units)
	reg("C10", "All placements of <=3-4 group feeders (plain, two-member, flatten of length 0/1/2, As, other group, other type) over <=3 scopes with Export, consumers as Invoke and as constructor, Provide/Invoke interleaved; multiset-equality oracle.", c10Units,
		"group order is unspecified: multisets")
	reg("C11", "All histories mixing soft and hard consumers, multi-result constructors, every field order of the consuming parameter object, nested objects, two group names; soft groups never trigger, lower and upper bound on content.", c11Units,
		"lower bound per DESIGN.md §3.6-7")
	reg("C12", "All placements of single-key, replace, multi-key and group decorators at every level of chain/fork trees with <=3 scopes, every order of Decorate/Provide/Invoke, consumer from every scope.", c12Units,
		"decoration cycles §3.6-1; decorator-over-nearer-provider §3.6-2")
}

func mkUnits(monitors []explore.Monitor) (add func(name string, cfg h.Config, plans map[string][]u.Beh, prefix []Op, a alpha, depth int, b explore.Budget), get func() []Unit) {
	var units []Unit
	add = func(name string, cfg h.Config, plans map[string][]u.Beh, prefix []Op, a alpha, depth int, b explore.Budget) {
		units = append(units, Unit{Sc: &Scenario{Name: name, Cfg: cfg, Plans: plans, Prefix: prefix, Alphabet: a.ops(), Depth: depth, Budget: b, Allowed: onceEach, Monitors: monitors}})
	}
	get = func() []Unit { return units }
	return
}

// ---------------------------------------------------------------- C02

func c02Units(tier string) []Unit {
	add0, get := mkUnits([]explore.Monitor{singletonMonitor("C02"), stabilityMonitor("C02"), resolutionMonitor("C02")})
	// the stability rule depends on what earlier Invokes delivered: that part of
	// the history joins the dedup key
	add := func(name string, cfg h.Config, plans map[string][]u.Beh, prefix []Op, a alpha, depth int, b explore.Budget) {
		add0(name, cfg, plans, prefix, a, depth, b)
		us := get()
		us[len(us)-1].Sc.KeyExtra = stabilityState
	}
	q := quick(tier)
	d := 7
	inv := 3
	if !q {
		d, inv = 9, 4
	}
	for _, def := range []bool{false, true} {
		cfg := h.Config{Defer: def}
		tag := fmt.Sprintf("/defer=%v", def)
		add("multipath"+tag, cfg, nil, prefixChild, alpha{scopes: []int{0, 1}, ctors: []*uFunc{pAg, pB, pG}, export: !q,
			decos: []*uFunc{dA}, invokes: []*uFunc{iA, iG, iGA, iB, iC}}, d, explore.Budget{Provides: 3, Decorates: 1, Invokes: inv, Rejected: 0})
		add("reentry-through-decorator"+tag, cfg, nil, prefixChild, alpha{scopes: []int{0, 1}, ctors: []*uFunc{pA, pB},
			decos: []*uFunc{dABa, dAB, dA}, invokes: []*uFunc{iA, iB}}, d, explore.Budget{Provides: 2, Decorates: 2, Invokes: inv, Rejected: 0})
		add("exported-from-siblings"+tag, cfg, nil, prefixFork, alpha{scopes: []int{0, 1, 2}, ctors: []*uFunc{pA, pB}, export: true,
			invokes: []*uFunc{iA, iB}}, d, explore.Budget{Provides: 2, Invokes: inv + 1, Rejected: 0})
	}
	// demands that follow failed Invokes (1 fault deviation)
	for _, plan := range []map[string][]u.Beh{
		{"pBe": {u.BehErr, u.BehOK}},
		{"pBe": {u.BehPanic, u.BehOK}},
		{"pAe": {u.BehErrVals, u.BehOK}},
	} {
		for _, rec := range []bool{false, true} {
			add(fmt.Sprintf("retry-after-failure/%v/recover=%v", plan, rec), h.Config{Recover: rec}, plan, prefixChild, alpha{scopes: []int{0, 1}, ctors: []*uFunc{pAe, pBe, pCb},
				decos: []*uFunc{dA}, invokes: []*uFunc{iA, iB, iC}}, d, explore.Budget{Provides: 3, Decorates: 1, Invokes: inv, Rejected: 0})
		}
	}
	// functions registered with callbacks are singletons like any other
	add("with-callbacks", h.Config{}, nil, prefixChild, alpha{scopes: []int{0, 1}, ctors: []*uFunc{pA.With("pAcb", u.WithCallback), fG1.With("fG1cb", u.WithCallback)},
		decos: []*uFunc{dA.With("dAcb", u.WithCallback), dG.With("dGcb", u.WithCallback)}, invokes: []*uFunc{iA, iG}}, 6, explore.Budget{Provides: 2, Decorates: 1, Invokes: 3, Rejected: 0})
	// a member provided to a group after its decorator ran: the decorator has
	// run, and stays the one run
	add("late-feeder-of-decorated-group", h.Config{}, nil, prefixChild, alpha{scopes: []int{0, 1}, ctors: []*uFunc{fG1, fG1b}, export: true,
		decos: []*uFunc{dG}, invokes: []*uFunc{iG}}, 5, explore.Budget{Provides: 2, Decorates: 1, Invokes: 2, Rejected: 0})
	// two constructors whose As lists overlap on a key that is not the first of
	// the second list (the second must be rejected; if it is not, the shared
	// key changes instance as the constructors are built one after the other)
	add("as-overlaps", h.Config{}, nil, prefixFork, alpha{scopes: []int{0, 1, 2}, ctors: []*uFunc{kAacw, kAccw}, export: true,
		invokes: []*uFunc{qI, qII, qC}}, 6, explore.Budget{Provides: 2, Invokes: 4, Rejected: 1})
	// a constructor provided As an interface next to another constructor of
	// its concrete type (same scope, or exported into it): the concrete key
	// keeps the one instance it had, whichever is demanded in between
	add("as-next-to-concrete", h.Config{}, nil, prefixChild, alpha{scopes: []int{0, 1}, ctors: []*uFunc{kAasI, pA, kAnAsI, pAn}, export: true,
		invokes: []*uFunc{iA, qI, qAn, qIn}}, 5, explore.Budget{Provides: 2, Invokes: 3, Rejected: 0})
	// a child created after its parent built a key, then shadowing that key with
	// a constructor that has a second result: one instance per (scope, key)
	add("late-scope-shadowing", h.Config{}, nil, nil, alpha{scopes: []int{0, 1}, ctors: []*uFunc{pA, pABo}, invokes: []*uFunc{iA, iB}, scopeOps: []int{0}},
		7, explore.Budget{Scopes: 1, Provides: 2, Invokes: 4, Rejected: 0})
	// decorators of one key at two levels of a three-scope chain, demanded from
	// the leaf and from the middle in every order
	add("decorators-three-levels", h.Config{}, nil, prefixChain, alpha{scopes: []int{0, 1, 2}, ctors: []*uFunc{pA},
		decos: []*uFunc{dA, dA0}, invokes: []*uFunc{iA}}, 7, explore.Budget{Provides: 1, Decorates: 2, Invokes: 4, Rejected: 0})
	// the decorated group demanded again, from a scope further down, while its
	// decorator is being built (exported constructor resolving below the
	// decorating scope)
	deepPrefix := []Op{scopeOp(0), scopeOp(1), provide(0, fG1), provide(0, pB0)}
	add("group-decorator-reentry-from-below", h.Config{}, nil, deepPrefix, alpha{scopes: []int{1, 2}, ctors: []*uFunc{exported(pG), pG},
		decos: []*uFunc{dGwB, dBwC, dG}, invokes: []*uFunc{iG, iB, iC}}, 6, explore.Budget{Provides: 1, Decorates: 2, Invokes: 3, Rejected: 0})
	// a failure that strikes while a constructor is being re-entered through a
	// decorator (the inner run has completed, the outer one is still building
	// its arguments): the completed run stays the only one
	for _, beh := range []u.Beh{u.BehErr, u.BehPanic} {
		for _, rec := range []bool{false, true} {
			if beh == u.BehErr && rec {
				continue // RecoverFromPanics is irrelevant when nothing panics
			}
			bud := explore.Budget{Provides: 2, Decorates: 1, Invokes: inv, Rejected: 0}
			add(fmt.Sprintf("reentry-then-failure/single/%v/recover=%v", beh, rec), h.Config{Recover: rec}, map[string][]u.Beh{"dABae": {beh, u.BehOK}}, prefixChild,
				alpha{scopes: []int{0, 1}, ctors: []*uFunc{pA, pB}, decos: []*uFunc{dABae}, invokes: []*uFunc{iA, iB}}, d, bud)
			add(fmt.Sprintf("reentry-then-failure/group/%v/recover=%v", beh, rec), h.Config{Recover: rec}, map[string][]u.Beh{"dGBAe": {beh, u.BehOK}}, prefixChild,
				alpha{scopes: []int{0, 1}, ctors: []*uFunc{pA, fBgA}, decos: []*uFunc{dGBAe}, invokes: []*uFunc{iA, iGB}}, d, bud)
		}
	}
	return get()
}

// ---------------------------------------------------------------- C03

func c03Units(tier string) []Unit {
	add, get := mkUnits([]explore.Monitor{silentOpsMonitor("C03"), lazinessMonitor("C03")})
	q := quick(tier)
	d, b := 5, explore.Budget{Provides: 3, Decorates: 1, Invokes: 2, Others: 1, Rejected: 0}
	if !q {
		d, b = 7, explore.Budget{Provides: 4, Decorates: 2, Invokes: 2, Others: 1, Rejected: 1}
	}
	for _, def := range []bool{false, true} {
		cfg := h.Config{Defer: def}
		tag := fmt.Sprintf("/defer=%v", def)
		add("bystanders"+tag, cfg, nil, prefixChild, alpha{scopes: []int{0, 1}, ctors: []*uFunc{pA, pA2, pB, pDd, pBn}, export: true,
			decos: []*uFunc{dA}, invokes: []*uFunc{iA, iB, iBn, iO2}, visualize: true, str: true}, d, b)
		add("soft-feeders"+tag, cfg, nil, prefixChild, alpha{scopes: []int{0, 1}, ctors: []*uFunc{pMB, fG1, pCs, pG},
			decos: []*uFunc{dG}, invokes: []*uFunc{iGs, iG, iB, iC, iS1}, visualize: true}, d, b)
		add("optional-providers"+tag, cfg, nil, prefixChild, alpha{scopes: []int{0, 1}, ctors: []*uFunc{pA, pBo, pCob, pCb, pDd},
			invokes: []*uFunc{iCo, iC, iBo}}, d, b)
		// a constructor that failed once and is retried after a nearer provider
		// of its dependency appeared: only the nearest one runs
		if !def {
			add("retry-after-shadowing", cfg, map[string][]u.Beh{"pBe": {u.BehErr, u.BehOK}}, prefixChild, alpha{scopes: []int{0, 1}, ctors: []*uFunc{pA, pA2, pBe},
				invokes: []*uFunc{iB}}, 5, explore.Budget{Provides: 3, Invokes: 2, Rejected: 0})
		}
		// group members registered under several interfaces (As): reaching the
		// group through any one of them runs the feeder
		add("group-as"+tag, cfg, nil, prefixChild, alpha{scopes: []int{0, 1}, ctors: []*uFunc{fAsII, fAs, fG1}, export: true,
			invokes: []*uFunc{iGI, iGII, iG}}, d, b)
		// decorators of one key at two levels (consuming the key or replacing
		// it): only the nearest one and what it asks for may run
		add("decorator-levels"+tag, cfg, nil, prefixChild, alpha{scopes: []int{0, 1}, ctors: []*uFunc{pA, pDd},
			decos: []*uFunc{dA, dA0}, invokes: []*uFunc{iA}}, d+1, explore.Budget{Provides: 2, Decorates: 2, Invokes: 3, Rejected: 0})
		// the same for a value group: every decorator of the group on the way
		// to the root runs (whether or not the nearer one consumes the group),
		// and through them the feeders, also those registered after a first Invoke
		if !def {
			add("group-decorator-levels", cfg, nil, prefixChild, alpha{scopes: []int{0, 1}, ctors: []*uFunc{fG1, fG1b},
				decos: []*uFunc{dG, dG0}, invokes: []*uFunc{iG}}, d+1, explore.Budget{Provides: 2, Decorates: 2, Invokes: 2, Rejected: 0})
		}
		b2 := b
		b2.Scopes = 2
		add("late-scopes"+tag, cfg, nil, nil, alpha{scopes: []int{0, 1, 2}, ctors: []*uFunc{pA, pB, pDd}, export: true,
			invokes: []*uFunc{iA, iB}, scopeOps: []int{0, 1}, str: true}, d, b2)
	}
	return get()
}

// faultSurfacesMonitor: when a user function failed during an Invoke, the
// Invoke fails with that failure as root cause (never swallowed, e.g. by an
// optional tag).
func faultSurfacesMonitor(prefix string) func(c *Ctx) []Violation {
	return func(c *Ctx) []Violation {
		st := c.Step
		if st.Op.Kind != h.OpInvoke {
			return nil
		}
		var vs []Violation
		for _, e := range c.Run.Events(st) {
			if e.Kind != u.EvExit || e.Outcome == u.BehOK {
				continue
			}
			c.Hit("faults_fired")
			switch {
			case e.Err != nil:
				if st.V.OK || st.V.User != e.Err {
					vs = append(vs, Violation{Rule: prefix + "/function-error-hidden", Detail: fmt.Sprintf("%s returned %v during %s but Invoke => %s", e.Fn, e.Err, st.Op, st.V.Class())})
				}
			case e.Panic != nil:
				if st.V.PanicVal != e.Panic {
					vs = append(vs, Violation{Rule: prefix + "/function-panic-hidden", Detail: fmt.Sprintf("%s panicked during %s but Invoke => %s", e.Fn, st.Op, st.V.Class())})
				}
			}
			break // only the first failure is the root cause
		}
		return vs
	}
}

// ---------------------------------------------------------------- C04

func c04Units(tier string) []Unit {
	mons := []explore.Monitor{availabilityMonitor("C04"), resolutionMonitor("C04"), faultSurfacesMonitor("C04")}
	add, get := mkUnits(mons)
	q := quick(tier)
	d, b := 6, explore.Budget{Provides: 3, Invokes: 3, Rejected: 0}
	if !q {
		d, b = 8, explore.Budget{Provides: 4, Invokes: 4, Rejected: 0}
	}
	scopes2 := []int{0, 1}
	for _, def := range []bool{false, true} {
		cfg := h.Config{Defer: def}
		tag := fmt.Sprintf("/defer=%v", def)
		add("chain-required-optional"+tag, cfg, nil, prefixChild, alpha{scopes: scopes2, ctors: []*uFunc{pA, pB, pBo, pCb, pCob}, export: true,
			invokes: []*uFunc{iC, iCo, iB, iBo}}, d, b)
		add("nested-and-named-optional"+tag, cfg, nil, prefixChild, alpha{scopes: scopes2, ctors: []*uFunc{pA, pAn, pBno, pBn2, pBnr, pCb}, export: !q,
			invokes: []*uFunc{iC, iB, iBo, iNest, iO2}}, d, b)
		// keys that a decorator produces but no constructor provides, alone and
		// below optional edges (§3.6-3: definite where dig's behaviour is)
		add("decorated-unprovided"+tag, cfg, nil, prefixChild, alpha{scopes: scopes2, ctors: []*uFunc{pA, pB, pCob},
			decos: []*uFunc{dA, dA0}, invokes: []*uFunc{iA, iAo, iB, iBo, iCo}}, d, explore.Budget{Provides: 2, Decorates: 2, Invokes: 2, Rejected: 0})
		// a key whose only Provide was rejected for a cycle (in this scope or an
		// ancestor) is as missing as one never provided: below an optional edge
		// that still means zero
		add("optional-after-rejected-provide"+tag, cfg, nil, prefixChild, alpha{scopes: scopes2, ctors: []*uFunc{pB, rAB, rCA},
			invokes: []*uFunc{iCo, iC, iAo}}, 4, explore.Budget{Provides: 3, Invokes: 1, Rejected: 1})
		// parameter objects with `ignore-unexported:"true"` whose unexported field
		// comes before the embed / before the exported fields
		add("ignore-unexported-layouts"+tag, cfg, nil, prefixChild, alpha{scopes: scopes2, ctors: []*uFunc{pA, pBux4, pBux5},
			invokes: []*uFunc{iAux4, iAux5, iB}}, 4, explore.Budget{Provides: 2, Invokes: 2, Rejected: 0})
		// a named value under two As interfaces, consumed by name (required,
		// optional, below a constructor) and — wrongly — without the name
		add("named-as"+tag, cfg, nil, prefixChild, alpha{scopes: scopes2, ctors: []*uFunc{kAnAsII, pCiin}, export: !q,
			invokes: []*uFunc{qIn, qIIn, qIIno, qII, iC}}, 4, explore.Budget{Provides: 2, Invokes: 2, Rejected: 0})
		// one constructor asking for the same type twice under different names
		add("same-type-two-names"+tag, cfg, nil, prefixChild, alpha{scopes: scopes2, ctors: []*uFunc{pA, pAn, pBaa, pBaa2},
			invokes: []*uFunc{iBo, iB}}, d, b)
		add("through-groups"+tag, cfg, nil, prefixChild, alpha{scopes: scopes2, ctors: []*uFunc{pA, fBgA, pCgb, pCob}, export: !q,
			invokes: []*uFunc{iC, iCo, iGB}}, d, b)
		if !q {
			add("fork3"+tag, cfg, nil, prefixFork, alpha{scopes: []int{0, 1, 2}, ctors: []*uFunc{pA, pBo, pCb}, export: true,
				invokes: []*uFunc{iC, iCo, iBo}}, d, b)
			add("chain3"+tag, cfg, nil, prefixChain, alpha{scopes: []int{0, 1, 2}, ctors: []*uFunc{pA, pBo, pCb}, export: true,
				invokes: []*uFunc{iC, iCo, iBo}}, d, b)
		}
	}
	// an optional tag never hides an error returned by a constructor
	for _, beh := range []u.Beh{u.BehErr, u.BehPanic, u.BehErrVals} {
		for _, rec := range []bool{false, true} {
			if beh != u.BehErrVals {
				// ... nor one that strikes while a decorator below the optional edge builds its arguments
				add(fmt.Sprintf("optional-never-hides-errors/decorator-dependency/%v/recover=%v", beh, rec), h.Config{Recover: rec}, map[string][]u.Beh{"pC0e": {beh}}, prefixChild,
					alpha{scopes: scopes2, ctors: []*uFunc{pA, pB, pC0e}, decos: []*uFunc{dAwC}, invokes: []*uFunc{iBo, iAo}}, d-1, explore.Budget{Provides: 3, Decorates: 1, Invokes: 2, Rejected: 0})
			}
			plans := map[string][]u.Beh{"pAe": {beh}, "pBe": {beh, u.BehOK}, "pBne": {beh}}
			add(fmt.Sprintf("optional-never-hides-errors/%v/recover=%v", beh, rec), h.Config{Recover: rec}, plans, prefixChild,
				alpha{scopes: scopes2, ctors: []*uFunc{pAe, pA, pBe, pBne, pBo, pCob}, invokes: []*uFunc{iAo, iBo, iCo, iO2, iBnO}}, d-1, b)
		}
	}
	return get()
}

// ---------------------------------------------------------------- C08

func c08Units(tier string) []Unit {
	add, get := mkUnits([]explore.Monitor{resolutionMonitor("C08"), availabilityMonitor("C08"), provideAcceptMonitor("C08")})
	q := quick(tier)
	d, b := 7, explore.Budget{Scopes: 2, Provides: 3, Decorates: 1, Invokes: 2, Rejected: 0}
	if !q {
		d, b = 9, explore.Budget{Scopes: 3, Provides: 3, Decorates: 1, Invokes: 3, Rejected: 0}
	}
	for _, def := range []bool{false, true} {
		cfg := h.Config{Defer: def}
		tag := fmt.Sprintf("/defer=%v", def)
		sc := []int{0, 1, 2}
		par := []int{0, 1}
		if !q {
			sc = []int{0, 1, 2, 3}
			par = []int{0, 1, 2}
		}
		add("all-trees"+tag, cfg, nil, nil, alpha{scopes: sc, ctors: []*uFunc{pA, pB}, export: true,
			invokes: []*uFunc{iA, iB}, scopeOps: par}, d, b)
		add("shadowing"+tag, cfg, nil, nil, alpha{scopes: []int{0, 1, 2}, ctors: []*uFunc{pA, pA2, pB},
			decos: []*uFunc{dA}, invokes: []*uFunc{iA, iB}, scopeOps: []int{0, 1}}, d, b)
		// sibling scopes that share a name are still two scopes: both see what
		// ancestors register later
		if !def {
			sameName := []Op{{Kind: h.OpScope, Scope: 0, RawDesc: "same"}, {Kind: h.OpScope, Scope: 0, RawDesc: "same"}, {Kind: h.OpScope, Scope: 1, RawDesc: "same"}}
			a := alpha{scopes: []int{0, 1, 2}, ctors: []*uFunc{pA, pB}, export: true, invokes: []*uFunc{iA, iB}}
			units0 := get()
			_ = units0
			add("same-named-siblings"+tag, cfg, nil, nil, a, 6, explore.Budget{Scopes: 3, Provides: 2, Invokes: 2, Rejected: 0})
			us := get()
			us[len(us)-1].Sc.Alphabet = append(sameName, us[len(us)-1].Sc.Alphabet...)
		}
		// optional consumers (invoked functions and constructors) below the
		// provider, at every level of a chain, with Export
		add("optional-consumers"+tag, cfg, nil, prefixChain, alpha{scopes: []int{0, 1, 2}, ctors: []*uFunc{pA, pBo}, export: true,
			invokes: []*uFunc{iAo, iBo, iB}}, 4, explore.Budget{Provides: 2, Invokes: 2, Rejected: 0})
		add("optional-over-unbuildable-nearest"+tag, cfg, nil, prefixChain, alpha{scopes: []int{0, 1, 2}, ctors: []*uFunc{pA, pAd, pBo},
			invokes: []*uFunc{iAo, iBo}}, 4, explore.Budget{Provides: 3, Invokes: 1, Rejected: 0})
		// exported constructors with group / optional / nested-object
		// parameters, registered before and after others that depend on them:
		// accepted from, and usable in, every scope
		add("exported-consumers"+tag, cfg, nil, prefixFork, alpha{scopes: []int{0, 1, 2}, ctors: []*uFunc{pG, pD, fG1, pCo}, export: true,
			invokes: []*uFunc{iC, iD}}, 5, explore.Budget{Provides: 3, Invokes: 2, Rejected: 1})
		// a Provide on an ancestor rejected for a cycle that only a descendant
		// sees must not disturb what the descendant (or anyone) resolves
		br := explore.Budget{Scopes: 2, Provides: 4, Invokes: 2, Rejected: 1}
		add("rejected-ancestor-provide"+tag, cfg, nil, nil, alpha{scopes: []int{0, 1, 2}, ctors: []*uFunc{rAB, rCA, rBC, pB0},
			invokes: []*uFunc{iA, iB, iC}, scopeOps: []int{0}}, d, br)
	}
	return get()
}

// ---------------------------------------------------------------- C10

func c10Units(tier string) []Unit {
	add, get := mkUnits([]explore.Monitor{resolutionMonitor("C10"), singletonMonitor("C10")})
	q := quick(tier)
	d, b := 5, explore.Budget{Provides: 3, Invokes: 2, Rejected: 0}
	if !q {
		d, b = 7, explore.Budget{Provides: 4, Invokes: 3, Rejected: 0}
	}
	for _, pre := range [][]Op{prefixChain, prefixFork} {
		name := "chain"
		if pre[1].Scope == 0 {
			name = "fork"
		}
		sc := []int{0, 1, 2}
		if q {
			// quick: the other-group and other-type bystanders in two smaller alphabets
			add(name+"/plain", h.Config{}, nil, pre, alpha{scopes: sc, ctors: []*uFunc{fG1, fG2, fH}, export: true,
				invokes: []*uFunc{iG, iGH}}, d, b)
			add(name+"/plain-other-type", h.Config{}, nil, pre, alpha{scopes: sc, ctors: []*uFunc{fG1, fBg}, export: true,
				invokes: []*uFunc{iG, iGB}}, d, b)
		} else {
			add(name+"/plain", h.Config{}, nil, pre, alpha{scopes: sc, ctors: []*uFunc{fG1, fG2, fH, fBg}, export: true,
				invokes: []*uFunc{iG, iGH, iGB}}, d, b)
		}
		add(name+"/consumer-constructor", h.Config{}, nil, pre, alpha{scopes: sc, ctors: []*uFunc{fG1, fG1b, pG}, export: true,
			invokes: []*uFunc{iG, iC}}, d, b)
	}
	// feeders with dependencies of their own (a plain value with providers at
	// several levels, another value group): they resolve from the scope they
	// were provided to, whichever scope asks for the group first
	bd := explore.Budget{Provides: 3, Invokes: 1, Rejected: 0}
	for _, pre := range [][]Op{prefixChain, prefixFork} {
		name := "chain"
		if pre[1].Scope == 0 {
			name = "fork"
		}
		add(name+"/feeder-needs-value", h.Config{}, nil, pre, alpha{scopes: []int{0, 1, 2}, ctors: []*uFunc{fGdep, pB0, pB0b}, export: true,
			invokes: []*uFunc{iG}}, 4, bd)
		add(name+"/feeder-needs-group", h.Config{}, nil, pre, alpha{scopes: []int{0, 1, 2}, ctors: []*uFunc{fGH, fH, fHb}, export: true,
			invokes: []*uFunc{iG}}, 4, bd)
	}
	add("rejected-feeder", h.Config{}, nil, prefixChild, alpha{scopes: []int{0, 1}, ctors: []*uFunc{pB0, pMgB, pMBg2, fG1}, export: true,
		invokes: []*uFunc{iG, iB}}, 4, explore.Budget{Provides: 3, Invokes: 1, Rejected: 1})
	add("flatten", h.Config{}, nil, prefixChild, alpha{scopes: []int{0, 1}, ctors: []*uFunc{fG1, fFl0, fFl1, fFl2, fFlo}, export: true,
		invokes: []*uFunc{iG, iGG}}, d, b)
	// members that are equal values (the very same pointer delivered for
	// several grouped results / flatten elements of one call): still one
	// element per grouped result
	add("equal-members", h.Config{}, nil, prefixChild, alpha{scopes: []int{0, 1}, ctors: []*uFunc{fG1, fFl3same, fObjSame, fPosSame}, export: !q,
		invokes: []*uFunc{iG, iGG}}, d, b)
	add("as", h.Config{}, nil, prefixChild, alpha{scopes: []int{0, 1}, ctors: []*uFunc{fG1, fAs, fAsII, fBg}, export: true,
		invokes: []*uFunc{iG, iGI, iGII, iGB}}, d, b)
	add("defer/plain", h.Config{Defer: true}, nil, prefixChild, alpha{scopes: []int{0, 1}, ctors: []*uFunc{fG1, fG2, fFl2, pG}, export: true,
		invokes: []*uFunc{iG, iC}}, d, b)
	return get()
}

// ---------------------------------------------------------------- C11

// softLowerBoundMonitor: a soft group contains all members from constructors
// executed before the Invoke began and from constructors required by the
// other fields of the same parameter object.
func softLowerBoundMonitor(prefix string) func(c *Ctx) []Violation {
	return func(c *Ctx) []Violation {
		st := c.Step
		if st.Op.Kind != h.OpInvoke || st.Op.Fn == nil {
			return nil
		}
		var vs []Violation
		m := c.Run.M
		li := indexLog(c.Run.RT.Log)
		for i := st.LogFrom; i < st.LogTo; i++ {
			e := c.Run.RT.Log[i]
			if e.Kind != u.EvEnter {
				continue
			}
			cons, ok := identify(c, e.Fn)
			if !ok {
				continue
			}
			for _, a := range e.Args {
				l := cons.leaves[a.Leaf]
				if !l.Key.IsGroup() || !l.Soft || len(m.DecoChain(cons.scope, l.Key)) > 0 {
					continue
				}
				// sibling fields of the same parameter object (and of objects nested in it)
				var sib []u.PLeaf
				for _, o := range cons.leaves {
					if o.Soft && o.Key.IsGroup() {
						continue
					}
					for _, p := range o.ObjPath {
						if p == l.Obj {
							sib = append(sib, o)
							break
						}
					}
				}
				must := m.MustRun(cons.scope, sib, cons.skip, li.doneBefore(st.LogFrom))
				var need []u.Tok
				for _, ct := range m.Feed(cons.scope, l.Key) {
					if li.doneBefore(st.LogFrom)(ct.Inst) || (cons.kind == "invoked" && must[ct.Inst]) {
						need = append(need, membersOf(li, ct, l.Key, i)...)
					}
				}
				c.Hit("soft_lower_bounds_checked")
				if len(need) > 0 {
					c.Hit("soft_lower_bounds_nonempty")
				}
				if !subMultiset(need, a.Toks) {
					vs = append(vs, Violation{Rule: prefix + "/soft-group-member-lost", Detail: fmt.Sprintf("%s received %s for soft group %v; it must contain %s (members of constructors executed before the Invoke or required by sibling fields)", e.Fn, tokList(a.Toks), l.Key, tokList(need))})
				}
			}
		}
		return vs
	}
}

func c11Units(tier string) []Unit {
	add, get := mkUnits([]explore.Monitor{resolutionMonitor("C11"), lazinessMonitor("C11"), softLowerBoundMonitor("C11")})
	q := quick(tier)
	d, b := 6, explore.Budget{Provides: 3, Invokes: 3, Rejected: 0}
	if !q {
		d, b = 8, explore.Budget{Provides: 4, Invokes: 4, Rejected: 0}
	}
	add("field-orders-2", h.Config{}, nil, prefixChild, alpha{scopes: []int{0, 1}, ctors: []*uFunc{pMB, fG1, pCs},
		invokes: []*uFunc{iS1, iS2, iSN, iSpos, iGs, iG, iB, iC}}, d, b)
	add("field-orders-3", h.Config{}, nil, nil, alpha{scopes: []int{0}, ctors: []*uFunc{pMB, pMC, pMBC, fG1},
		invokes: []*uFunc{iS3a, iS3b, iS3c, iSH, iGs, iB}}, d, b)
	add("nested-objects", h.Config{}, nil, nil, alpha{scopes: []int{0}, ctors: []*uFunc{pMB, pMC, fG1, pCsn},
		invokes: []*uFunc{iSN, iSN2, iSN3, iSN4, iC, iGs}}, d, b)
	// a constructor with a soft view of g that is itself a feeder of h, reached
	// first through a hard consumer of h from another scope (Export): its soft
	// group is what its own scope sees
	add("soft-param-of-exported-feeder", h.Config{}, nil, prefixFork, alpha{scopes: []int{0, 1, 2}, ctors: []*uFunc{pXsh, pMB}, export: true,
		invokes: []*uFunc{iB, iGH, iC}}, 5, explore.Budget{Provides: 2, Invokes: 3, Rejected: 0})
	add("three-levels", h.Config{}, nil, prefixChain, alpha{scopes: []int{0, 1, 2}, ctors: []*uFunc{pMB, fG1},
		invokes: []*uFunc{iGs, iG, iB}}, 5, explore.Budget{Provides: 3, Invokes: 2, Rejected: 0})
	add("members-after-a-mid-list-error", h.Config{}, nil, prefixChild, alpha{scopes: []int{0, 1}, ctors: []*uFunc{pMBem, fG1},
		invokes: []*uFunc{iS1, iS2, iB, iGs, iG}}, 5, explore.Budget{Provides: 2, Invokes: 3, Rejected: 0})
	// a hard consumer whose build fails half way (one feeder ran, another
	// failed): the members of the feeder that ran stay, for the soft consumers
	// that come next and for the retry
	for _, beh := range []u.Beh{u.BehErr, u.BehPanic} {
		add(fmt.Sprintf("members-of-a-partly-failed-hard-build/%v", beh), h.Config{Recover: beh == u.BehPanic}, map[string][]u.Beh{"fG1e": {beh, u.BehOK}}, prefixChild,
			alpha{scopes: []int{0, 1}, ctors: []*uFunc{pMB, fG1e}, invokes: []*uFunc{iG, iGs, iS1}}, 5, explore.Budget{Provides: 2, Invokes: 3, Rejected: 0})
	}
	add("two-groups-scoped", h.Config{}, nil, prefixChild, alpha{scopes: []int{0, 1}, ctors: []*uFunc{pMB, pMC, fH}, export: true,
		invokes: []*uFunc{iSH, iS1, iGH, iC}}, d, b)
	if !q {
		add("defer/field-orders", h.Config{Defer: true}, nil, prefixChild, alpha{scopes: []int{0, 1}, ctors: []*uFunc{pMB, pMBC, fG1, pCs},
			invokes: []*uFunc{iS1, iS2, iS3a, iS3c, iGs, iC}}, d, b)
	}
	return get()
}

// ---------------------------------------------------------------- C12

// decorateVerdictMonitor: a scope accepts at most one decorator per key.
func decorateVerdictMonitor(prefix string) func(c *Ctx) []Violation {
	return func(c *Ctx) []Violation {
		st := c.Step
		if st.Op.Kind != h.OpDecorate || st.Op.Fn == nil {
			return nil
		}
		m := st.Model // model before the op
		conflict := false
		seen := map[u.Key]bool{}
		for _, r := range st.Op.Fn.RLeaves() {
			k := model.DecoKey(r)
			if m.DecoIn(st.Op.Scope, k) != nil || seen[k] {
				conflict = true
			}
			seen[k] = true
		}
		c.Hit("decorate_verdicts_checked")
		if conflict {
			c.Hit("decorate_conflicts")
		}
		if conflict && st.V.OK {
			return []Violation{{Rule: prefix + "/second-decorator-accepted", Detail: fmt.Sprintf("%s accepted although the scope already decorates one of its keys", st.Op)}}
		}
		if !conflict && !st.V.OK {
			return []Violation{{Rule: prefix + "/valid-decorator-rejected", Detail: fmt.Sprintf("%s => %s (%s)", st.Op, st.V.Class(), st.V.Msg)}}
		}
		return nil
	}
}

func c12Units(tier string) []Unit {
	add, get := mkUnits([]explore.Monitor{resolutionMonitor("C12"), decorateVerdictMonitor("C12"), singletonMonitor("C12")})
	q := quick(tier)
	d, b := 6, explore.Budget{Provides: 2, Decorates: 3, Invokes: 2, Rejected: 1}
	if !q {
		d, b = 8, explore.Budget{Provides: 3, Decorates: 3, Invokes: 3, Rejected: 1}
	}
	for _, pre := range [][]Op{prefixChain, prefixFork} {
		name := "chain"
		if pre[1].Scope == 0 {
			name = "fork"
		}
		sc := []int{0, 1, 2}
		add(name+"/single", h.Config{}, nil, pre, alpha{scopes: sc, ctors: []*uFunc{pA, pB},
			decos: []*uFunc{dA, dA0}, invokes: []*uFunc{iA, iB}}, d, b)
		add(name+"/multikey", h.Config{}, nil, pre, alpha{scopes: sc, ctors: []*uFunc{pA, pB},
			decos: []*uFunc{dAB, dA}, invokes: []*uFunc{iA, iB}}, d, b)
		add(name+"/group", h.Config{}, nil, pre, alpha{scopes: sc, ctors: []*uFunc{fG1, pG},
			decos: []*uFunc{dG}, invokes: []*uFunc{iG, iGs, iC}}, d, b)
	}
	// siblings deep in the tree (depth 3 and depth 5): each sees its own
	// decorators and those of its ancestors, never its sibling's
	for _, depth := range []int{3, 5} {
		var pre []Op
		for i := 0; i < depth-1; i++ {
			pre = append(pre, scopeOp(i))
		}
		pre = append(pre, scopeOp(depth-1), scopeOp(depth-1), provide(0, pA), provide(0, fG1))
		add(fmt.Sprintf("deep-siblings/depth%d", depth), h.Config{}, nil, pre, alpha{scopes: []int{depth - 1, depth, depth + 1}, ctors: []*uFunc{pB},
			decos: []*uFunc{dA, dG}, invokes: []*uFunc{iA, iG}}, 4, explore.Budget{Provides: 1, Decorates: 3, Invokes: 2, Rejected: 1})
	}
	add("group-decorator-reentry-from-below", h.Config{}, nil, []Op{scopeOp(0), scopeOp(1), provide(0, fG1), provide(0, pB0)}, alpha{scopes: []int{1, 2}, ctors: []*uFunc{exported(pG), pG},
		decos: []*uFunc{dGwB, dBwC, dG}, invokes: []*uFunc{iG, iB, iC}}, 6, explore.Budget{Provides: 1, Decorates: 2, Invokes: 3, Rejected: 0})
	// the group taken and returned through different slice types over the same
	// element type (plain, two named slices): the key is (element type, group)
	add("group-slice-types", h.Config{}, nil, prefixChild, alpha{scopes: []int{0, 1}, ctors: []*uFunc{fG1},
		decos: []*uFunc{dG, dGns}, invokes: []*uFunc{iG, iGns, iGns2}}, 5, explore.Budget{Provides: 1, Decorates: 2, Invokes: 2, Rejected: 1})
	add("defer/mixed", h.Config{Defer: true}, nil, prefixChild, alpha{scopes: []int{0, 1}, ctors: []*uFunc{pA, pB, fG1},
		decos: []*uFunc{dA, dAB, dG}, invokes: []*uFunc{iA, iB, iG}}, d, b)
	if !q {
		for _, beh := range []u.Beh{u.BehErr, u.BehPanic} {
			plans := map[string][]u.Beh{"dAe": {beh, u.BehOK}}
			add(fmt.Sprintf("one-fault/%v", beh), h.Config{Recover: true}, plans, prefixChild, alpha{scopes: []int{0, 1}, ctors: []*uFunc{pA, pB},
				decos: []*uFunc{dAe, dA}, invokes: []*uFunc{iA, iB}}, d, b)
		}
	}
	// a decorator (single key, group) whose first run fails is still the one
	// that supplies the key afterwards: never the undecorated value
	for _, beh := range []u.Beh{u.BehErr, u.BehPanic} {
		for _, rec := range []bool{false, true} {
			if beh == u.BehErr && rec {
				continue
			}
			plans := map[string][]u.Beh{"dAe": {beh, u.BehOK}, "dGe": {beh, u.BehOK}}
			add(fmt.Sprintf("failed-decorator-still-applies/%v/recover=%v", beh, rec), h.Config{Recover: rec}, plans, prefixChild, alpha{scopes: []int{0, 1}, ctors: []*uFunc{pA, fG1},
				decos: []*uFunc{dAe, dGe}, invokes: []*uFunc{iA, iG}}, 6, explore.Budget{Provides: 2, Decorates: 2, Invokes: 3, Rejected: 0})
		}
	}
	return get()
}

var dAe = u.F("dAe", "A", "A,error")

var (
	fFl3same = u.F("fFl3same", "", "{[A]+g!3}", u.SameValues)         // a flatten slice of one pointer three times
	fObjSame = u.F("fObjSame", "", "{A+g;{A+g};B+g}", u.SameValues)   // two fields (one nested) delivering the same pointer
	fPosSame = u.F("fPosSame", "", "A,A", u.Group("g"), u.SameValues) // two positional results under dig.Group
)

var (
	dGns  = u.F("dGns", "{A*g}", "{NS!1+g}") // group decorator returning the group as named slice NS
	iGns  = u.F("iGns", "{A*g^NS}", "")
	iGns2 = u.F("iGns2", "{A*g^NS2}", "")
)

var (
	pBux4 = &u.Func{ID: "pBux4", Params: []u.Param{{Kind: u.PObject, Embed: 4, Fields: []u.Param{{Kind: u.PSingle, Type: "A"}}}}, Results: []u.Result{{Kind: u.RSingle, Type: "B"}}}
	pBux5 = &u.Func{ID: "pBux5", Params: []u.Param{{Kind: u.PObject, Embed: 5, Fields: []u.Param{{Kind: u.PSingle, Type: "A", Optional: true}}}}, Results: []u.Result{{Kind: u.RSingle, Type: "B"}}}
	iAux4 = &u.Func{ID: "iAux4", Params: []u.Param{{Kind: u.PObject, Embed: 4, Fields: []u.Param{{Kind: u.PSingle, Type: "A", Optional: true}}}}}
	iAux5 = &u.Func{ID: "iAux5", Params: []u.Param{{Kind: u.PObject, Fields: []u.Param{{Kind: u.PObject, Embed: 5, Fields: []u.Param{{Kind: u.PSingle, Type: "A"}}}}}}}
	pAd   = u.F("pAd", "D", "A")        // A whose dependency D nobody provides
	pMgB  = u.F("pMgB", "", "{A+g;B}")  // a member of g declared before a plain B
	pMBg2 = u.F("pMBg2", "", "{B;A+g}") // the same, B first
)
