package checks

import (
	"fmt"

	"verif/explore"
	h "verif/harness"
	u "verif/universe"
)

// C01 — injected values are exactly the registered constructors' outputs
// (style H: history BFS, provenance oracle on every argument of every
// executed user function).
func init() {
	explore.Register(&explore.Check{
		ID:    "C01",
		Rule:  "All histories of Scope/Provide/Decorate/Invoke over the scenario alphabets up to the depth/budget bounds; for every user function executed, every argument's provenance token is compared with the reference model's supplier (nearest decorator, else nearest provider, group multisets, optional zero).",
		Units: c01Units,
		Assumptions: []string{
			"reference model = DESIGN.md §3.5 resolver; §3.6-1/2/3 scoping decisions",
			"group slices compared as multisets; execution order between independent dependencies unconstrained",
		},
	})
}

func c01Units(tier string) []Unit {
	mon := []explore.Monitor{resolutionMonitor("C01")}
	var units []Unit
	add := func(name string, cfg h.Config, prefix []Op, a alpha, depth int, b explore.Budget) {
		units = append(units, Unit{Sc: &Scenario{Name: name, Cfg: cfg, Prefix: prefix, Alphabet: a.ops(), Depth: depth, Budget: b, Allowed: onceEach, Monitors: mon}})
	}
	q := quick(tier)
	for _, def := range []bool{false, true} {
		cfg := h.Config{Defer: def}
		tag := fmt.Sprintf("/defer=%v", def)
		d, b := 6, explore.Budget{Provides: 3, Decorates: 1, Invokes: 2, Rejected: 1}
		if !q {
			d, b = 8, explore.Budget{Provides: 4, Decorates: 2, Invokes: 3, Rejected: 1}
		}
		add("core"+tag, cfg, prefixChild, alpha{scopes: []int{0, 1}, ctors: []*uFunc{pA, pA2, pB, pC}, export: true,
			decos: []*uFunc{dA}, invokes: []*uFunc{iA, iB, iC}}, d, b)
		add("optional-named-group"+tag, cfg, prefixChild, alpha{scopes: []int{0, 1}, ctors: []*uFunc{pA, pCo, pM, pG}, export: true,
			invokes: []*uFunc{iO, iO2, iC}}, d, b)
		b2 := b
		b2.Decorates++
		add("decorators"+tag, cfg, prefixChild, alpha{scopes: []int{0, 1}, ctors: []*uFunc{pA, pB},
			decos: []*uFunc{dA, dA0, dAB}, invokes: []*uFunc{iA, iB}}, d, b2)
		b3 := b
		b3.Scopes = 1
		add("late-scope"+tag, cfg, nil, alpha{scopes: []int{0, 1}, ctors: []*uFunc{pA, pB, pM}, export: true,
			decos: []*uFunc{dA}, invokes: []*uFunc{iA, iB, iO}, scopeOps: []int{0}}, d, b3)
		// registrations rejected for a cycle (in the target scope, only in a
		// descendant, through Export) followed by demands of the same keys:
		// nothing a rejected function produced may ever be delivered
		b4 := b
		b4.Provides, b4.Rejected = 4, 2
		add("rejected-by-cycle"+tag, cfg, prefixChild, alpha{scopes: []int{0, 1}, ctors: []*uFunc{pA, pB, rAB, rAoB}, export: true,
			invokes: []*uFunc{iA, iB}}, d, b4)
		// optional consumers of exported constructors whose own dependencies are
		// private to the exporting scope: available means delivered, never zero
		add("optional-over-exported"+tag, cfg, prefixChild, alpha{scopes: []int{0, 1}, ctors: []*uFunc{pA, pB, pCb}, export: true,
			invokes: []*uFunc{iBo, iCo, iNest}}, d, b)
		if !def {
			// a group decorator whose first call fails while returning values,
			// then is retried: what it (and everyone) receives are still the
			// registered constructors' outputs
			for _, beh := range []u.Beh{u.BehErrVals, u.BehErr} {
				units = append(units, Unit{Sc: &Scenario{Name: fmt.Sprintf("failing-group-decorator/%v", beh), Cfg: cfg, Plans: map[string][]u.Beh{"dGe": {beh, u.BehOK}},
					Prefix: prefixChild, Alphabet: alpha{scopes: []int{0, 1}, ctors: []*uFunc{fG1, fG1b}, decos: []*uFunc{dGe, dG}, invokes: []*uFunc{iG, iGs}}.ops(),
					Depth: 6, Budget: explore.Budget{Provides: 2, Decorates: 1, Invokes: 3, Rejected: 0}, Allowed: onceEach, Monitors: mon}})
			}
		}
		if !def {
			// result objects (of a constructor, of a decorator) whose tagged
			// fields come before untagged ones: every field is keyed by its own
			// tags only
			add("result-object-field-order", cfg, prefixChild, alpha{scopes: []int{0, 1}, ctors: []*uFunc{pNB, pGB, pB}, export: !q,
				decos: []*uFunc{dNB}, invokes: []*uFunc{iNB, iB}}, 5, explore.Budget{Provides: 3, Decorates: 1, Invokes: 2, Rejected: 1})
		}
		if !q || !def {
			add("chain3"+tag, cfg, prefixChain, alpha{scopes: []int{0, 1, 2}, ctors: []*uFunc{pA, pB}, export: true,
				decos: []*uFunc{dA}, invokes: []*uFunc{iA, iB}}, d, b)
			add("fork3"+tag, cfg, prefixFork, alpha{scopes: []int{0, 1, 2}, ctors: []*uFunc{pA, pB}, export: true,
				decos: []*uFunc{dA}, invokes: []*uFunc{iA, iB}}, d, b)
		}
	}
	return units
}

var (
	pNB = u.F("pNB", "", "{A@n;B}")               // a named field declared before an untagged one
	pGB = u.F("pGB", "", "{A+g;C;B@n}")           // a group field before an untagged and a named one
	dNB = u.F("dNB", "{A@n;B}", "{A@n;B}")        // a decorator returning the same shape
	iNB = u.F("iNB", "{A@n?;B?;B@n?;C?;A*g}", "") // everything optional: shows what there is
)
