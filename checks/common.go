// Package checks holds the per-property alphabets, bounds and oracles.
package checks

import (
	"verif/explore"
	h "verif/harness"
	u "verif/universe"
)

type (
	Op        = h.Op
	Violation = explore.Violation
	Ctx       = explore.Ctx
	Scenario  = explore.Scenario
	Unit      = explore.Unit
)

func quick(tier string) bool { return tier != "thorough" }

// ---- the shared function pool (Σ₁ of DESIGN.md §4) ----

var (
	pA  = u.F("pA", "", "A")
	pA2 = u.F("pA2", "", "A")
	pB  = u.F("pB", "A", "B")
	pC  = u.F("pC", "A,B", "C")
	pCo = u.F("pCo", "{A?;B@n?}", "C")
	pM  = u.F("pM", "", "{B@n;A+g}")
	pG  = u.F("pG", "{A*g}", "C")
	pGm = u.F("pGm", "", "A", u.Group("g"))
	pBn = u.F("pBn", "", "B", u.Name("n"))
	pD  = u.F("pD", "C", "D")
	dA  = u.F("dA", "A", "A")
	dA0 = u.F("dA0", "", "A")
	dAB = u.F("dAB", "A,B", "A,B")
	dG  = u.F("dG", "{A*g}", "{[A]!1+g}")
	iA  = u.F("iA", "A", "")
	iB  = u.F("iB", "B", "")
	iC  = u.F("iC", "C", "")
	iD  = u.F("iD", "D", "")
	iO  = u.F("iO", "{A?;B@n?;A*g}", "")
	iO2 = u.F("iO2", "{B@n?;A?}", "")
	iG  = u.F("iG", "{A*g}", "")
	iGs = u.F("iGs", "{A*g~}", "")
	iBn = u.F("iBn", "{B@n}", "")
)

func scopeOp(parent int) Op { return Op{Kind: h.OpScope, Scope: parent} }

func provide(s int, f *u.Func) Op  { return Op{Kind: h.OpProvide, Scope: s, Fn: f} }
func decorate(s int, f *u.Func) Op { return Op{Kind: h.OpDecorate, Scope: s, Fn: f} }
func invoke(s int, f *u.Func) Op   { return Op{Kind: h.OpInvoke, Scope: s, Fn: f} }

// exported returns the Export(true) variant of a constructor spec.
func exported(f *u.Func) *u.Func { return f.With(f.ID+"x", u.Export) }

// alphabet builds ops over the given scopes.
type alpha struct {
	scopes    []int // target scopes for function ops
	ctors     []*u.Func
	export    bool // also the exported variant in non-root scopes
	decos     []*u.Func
	invokes   []*u.Func
	scopeOps  []int // parents for scope-creation ops
	visualize bool
	str       bool
}

func (a alpha) ops() []Op {
	var out []Op
	for _, p := range a.scopeOps {
		out = append(out, scopeOp(p))
	}
	for _, f := range a.ctors {
		for _, s := range a.scopes {
			out = append(out, provide(s, f))
			if a.export && s != 0 {
				out = append(out, provide(s, exported(f)))
			}
		}
	}
	for _, f := range a.decos {
		for _, s := range a.scopes {
			out = append(out, decorate(s, f))
		}
	}
	for _, f := range a.invokes {
		for _, s := range a.scopes {
			out = append(out, invoke(s, f))
		}
	}
	if a.visualize {
		out = append(out, Op{Kind: h.OpVisualize})
	}
	if a.str {
		for _, s := range a.scopes {
			out = append(out, Op{Kind: h.OpString, Scope: s})
		}
	}
	return out
}

// chain / fork prefixes creating scopes 1 (child of root) and 2.
var (
	prefixChild = []Op{scopeOp(0)}
	prefixChain = []Op{scopeOp(0), scopeOp(1)}
	prefixFork  = []Op{scopeOp(0), scopeOp(0)}
)

// onceEach forbids registering the same spec in the same scope twice once it
// was accepted (a function of the model state, which is part of the dedup
// key). Duplicates are exercised by dedicated scenarios.
func onceEach(r *h.Run, op Op) bool {
	if op.Fn == nil {
		return true
	}
	switch op.Kind {
	case h.OpProvide:
		for _, c := range r.M.Ctors {
			if c.F.ID == op.Fn.ID && c.Orig == op.Scope {
				return false
			}
		}
	case h.OpDecorate:
		for _, d := range r.M.Decos {
			if d.F.ID == op.Fn.ID && d.Scope == op.Scope {
				return false
			}
		}
	}
	return true
}

type uFunc = u.Func

// Re-entry shapes: a decorator of A whose own dependency (B, or the group g of
// B) is produced by a constructor that consumes A. Demanding B first makes dig
// enter B's constructor, start building A's decorator for it, and re-enter the
// same constructor from inside that decorator (DESIGN.md §3.6-1).
var (
	dABae = u.F("dABae", "A,B", "A,error")             // decorator of A that needs B; may fail
	dGBA  = u.F("dGBA", "{B*g}", "A")                  // decorator of A that needs the group g of B
	dGBAe = u.F("dGBAe", "{B*g}", "A,error")           // the same; may fail
	fBgAe = u.F("fBgAe", "A", "B,error", u.Group("g")) // group member B needing A; may fail
	// a group decorator that also needs B, a decorator of B that needs C, and a
	// constructor of C that consumes the group: placed over a chain of scopes
	// (C exported from below) the group is demanded again while its decorator
	// is being built
	rAnB   = u.F("rAnB", "B", "A", u.Name("n")) // A@n needs B
	pGnest = u.F("pGnest", "{{A*g};B?}", "C")   // group field in a nested parameter object
	dGwB   = u.F("dGwB", "{A*g},B", "{[A]!1+g}")
	dBwC   = u.F("dBwC", "B,C", "B")
)

// ring pieces: constructor of X consuming Y.
var (
	rAB  = u.F("rAB", "B", "A")                // A needs B
	rBC  = u.F("rBC", "C", "B")                // B needs C
	rCA  = u.F("rCA", "A", "C")                // C needs A
	rCD  = u.F("rCD", "D", "C")                // C needs D
	rDA  = u.F("rDA", "A", "D")                // D needs A
	rAoB = u.F("rAoB", "{B?}", "A")            // A optionally needs B
	rAgB = u.F("rAgB", "{B*g}", "A")           // A needs group of B
	rBgC = u.F("rBgC", "C", "B", u.Group("g")) // group member B needs C
)

var (
	pGG  = u.F("pGG", "{A*g;A*h}", "C")        // two group fields in one object
	fAgC = u.F("fAgC", "C", "A", u.Group("g")) // member of g that needs C
)
