package checks

import (
	"fmt"

	"verif/explore"
	h "verif/harness"
	u "verif/universe"
)

// C17 — DryRun executes nothing but validates the same (style D: product of a
// dry and a normal container driven in lock-step).
func init() {
	explore.Register(&explore.Check{
		ID:    "C17",
		Rule:  "All histories over the scenario alphabets up to the depth/budget bounds on a DryRun container, each compared op by op with the same history on a normal container whose functions all succeed.",
		Units: c17Units,
		Assumptions: []string{
			"verdict classes compare error classification (nil / dig error / cycle / visualizable), never message text",
		},
	})
}

func dryMonitor(c *Ctx) []Violation {
	var vs []Violation
	if n := c.Step.LogTo - c.Step.LogFrom; n > 0 {
		ev := c.Run.Events(c.Step)[0]
		vs = append(vs, Violation{Rule: "C17/dry-executed-user-code", Detail: fmt.Sprintf("%s ran in a DryRun container during %s", ev.Fn, c.Step.Op)})
	}
	cfg := c.Sc.Cfg
	cfg.Dry = false
	ops := append(append([]Op{}, c.Sc.Prefix...), c.Ops()...)
	n := h.Replay(cfg, nil, ops)
	got, want := c.Step.V.Class(), n.Steps[len(n.Steps)-1].V.Class()
	c.Hit("dry_vs_normal_compared")
	if got != "ok" {
		c.Hit("dry_nonok_verdicts")
	}
	if got != want {
		vs = append(vs, Violation{Rule: "C17/dry-verdict-differs", Detail: fmt.Sprintf("op %s: dry=%s normal=%s", c.Step.Op, got, want)})
	}
	return vs
}

func c17Units(tier string) []Unit {
	var units []Unit
	depth, bud := 5, explore.Budget{Scopes: 1, Provides: 3, Decorates: 1, Invokes: 2, Others: 1, Rejected: 1}
	if !quick(tier) {
		depth, bud = 7, explore.Budget{Scopes: 2, Provides: 4, Decorates: 2, Invokes: 3, Others: 1, Rejected: 2}
	}
	for _, def := range []bool{false, true} {
		a := alpha{scopes: []int{0, 1}, ctors: []*uFunc{pA, pB, pC, pCo, pM, pG}, export: true,
			decos: []*uFunc{dA, dA0, dG}, invokes: []*uFunc{iA, iC, iO, iG}, scopeOps: []int{0}}
		units = append(units, Unit{Sc: &Scenario{
			Name: fmt.Sprintf("dry/sigma1/defer=%v", def), Cfg: h.Config{Dry: true, Defer: def},
			Alphabet: a.ops(), Depth: depth, Budget: bud, Allowed: onceEach,
			Monitors: []explore.Monitor{dryMonitor},
		}})
		// cycle / missing shapes: A<-B<-C<-A ring pieces
		ring := alpha{scopes: []int{0, 1}, ctors: []*uFunc{rAB, rBC, rCA, rAoB}, export: true,
			invokes: []*uFunc{iA, iB, iC}, scopeOps: []int{0}}
		units = append(units, Unit{Sc: &Scenario{
			Name: fmt.Sprintf("dry/ring/defer=%v", def), Cfg: h.Config{Dry: true, Defer: def},
			Alphabet: ring.ops(), Depth: depth, Budget: bud, Allowed: onceEach,
			Monitors: []explore.Monitor{dryMonitor},
		}})
		// value groups whose decorator does not (hard-)consume the group, feeders
		// with a missing dependency, As-provided interfaces taken positionally
		grp := alpha{scopes: []int{0, 1}, ctors: []*uFunc{fG1, fGmiss}, decos: []*uFunc{dG, dG0, dGsoft}, invokes: []*uFunc{iG, iGs}}
		units = append(units, Unit{Sc: &Scenario{
			Name: fmt.Sprintf("dry/groups/defer=%v", def), Cfg: h.Config{Dry: true, Defer: def}, Prefix: prefixChild,
			Alphabet: grp.ops(), Depth: depth, Budget: explore.Budget{Provides: 2, Decorates: 2, Invokes: 2, Rejected: 1}, Allowed: onceEach,
			Monitors: []explore.Monitor{dryMonitor},
		}})
		soft := alpha{scopes: []int{0, 1}, ctors: []*uFunc{pMfl, fFl2}, decos: []*uFunc{dGmiss, dGpub, dG}, invokes: []*uFunc{iGs, iS1, iB, iD}}
		units = append(units, Unit{Sc: &Scenario{
			Name: fmt.Sprintf("dry/soft-flatten/defer=%v", def), Cfg: h.Config{Dry: true, Defer: def}, Prefix: prefixChild,
			Alphabet: soft.ops(), Depth: depth, Budget: explore.Budget{Provides: 2, Decorates: 1, Invokes: 2, Rejected: 1}, Allowed: onceEach,
			Monitors: []explore.Monitor{dryMonitor},
		}})
		robj := alpha{scopes: []int{0, 1}, ctors: []*uFunc{pAmiss, pB0, pA}, decos: []*uFunc{dA0o, dABo}, invokes: []*uFunc{iA, iB}}
		units = append(units, Unit{Sc: &Scenario{
			Name: fmt.Sprintf("dry/result-object-decorators/defer=%v", def), Cfg: h.Config{Dry: true, Defer: def}, Prefix: prefixChild,
			Alphabet: robj.ops(), Depth: depth, Budget: explore.Budget{Provides: 2, Decorates: 1, Invokes: 2, Rejected: 1}, Allowed: onceEach,
			Monitors: []explore.Monitor{dryMonitor},
		}})
		recov := alpha{scopes: []int{0, 1}, ctors: []*uFunc{pA, pB, fG1}, decos: []*uFunc{dA, dAB, dG}, invokes: []*uFunc{iA, iB, iG}}
		units = append(units, Unit{Sc: &Scenario{
			Name: fmt.Sprintf("dry/recover-from-panics/defer=%v", def), Cfg: h.Config{Dry: true, Defer: def, Recover: true}, Prefix: prefixChild,
			Alphabet: recov.ops(), Depth: depth, Budget: explore.Budget{Provides: 2, Decorates: 1, Invokes: 2, Rejected: 1}, Allowed: onceEach,
			Monitors: []explore.Monitor{dryMonitor},
		}})
		enl := alpha{scopes: []int{0, 1}, ctors: []*uFunc{pAef, pBem}, decos: []*uFunc{dAef}, invokes: []*uFunc{iA, iB, iBn}}
		units = append(units, Unit{Sc: &Scenario{
			Name: fmt.Sprintf("dry/error-not-last/defer=%v", def), Cfg: h.Config{Dry: true, Defer: def}, Prefix: prefixChild,
			Alphabet: enl.ops(), Depth: depth, Budget: explore.Budget{Provides: 2, Decorates: 1, Invokes: 2, Rejected: 1}, Allowed: onceEach,
			Monitors: []explore.Monitor{dryMonitor},
		}})
		as := alpha{scopes: []int{0, 1}, ctors: []*uFunc{kAasI, kAasII, kIplain, pCia}, export: true, decos: []*uFunc{dIA}, invokes: []*uFunc{qI, qII, qIn, iC}}
		units = append(units, Unit{Sc: &Scenario{
			Name: fmt.Sprintf("dry/as/defer=%v", def), Cfg: h.Config{Dry: true, Defer: def}, Prefix: prefixChild,
			Alphabet: as.ops(), Depth: depth, Budget: explore.Budget{Provides: 3, Decorates: 1, Invokes: 2, Rejected: 1}, Allowed: onceEach,
			Monitors: []explore.Monitor{dryMonitor},
		}})
		// constructors whose result is itself interface-typed, provided under
		// one or two interfaces (its own type first or second; as a nested named field)
		if !def || !quick(tier) {
			asi := alpha{scopes: []int{0, 1}, ctors: []*uFunc{kIboth, kIboth2, kIasI, tIownN}, export: !quick(tier), invokes: []*uFunc{qI, qII, qIn, qBoth, qAll}}
			units = append(units, Unit{Sc: &Scenario{
				Name: fmt.Sprintf("dry/as-on-interface-results/defer=%v", def), Cfg: h.Config{Dry: true, Defer: def}, Prefix: prefixChild,
				Alphabet: asi.ops(), Depth: 4, Budget: explore.Budget{Provides: 2, Invokes: 2, Rejected: 1}, Allowed: onceEach,
				Monitors: []explore.Monitor{dryMonitor},
			}})
		}
	}
	return units
}

var (
	fGmiss = u.F("fGmiss", "D", "A", u.Group("g")) // group member whose dependency D nobody provides
	dG0    = u.F("dG0", "", "{[A]!1+g}")           // group decorator that does not consume the group
	dGsoft = u.F("dGsoft", "{A*g~}", "{[A]!1+g}")  // group decorator with a soft view of the group
	pAmiss = u.F("pAmiss", "D", "A")               // A whose dependency D nobody provides
	dA0o   = u.F("dA0o", "", "{A}")                // decorator replacing A, returning a result object
	dABo   = u.F("dABo", "A,B", "{A;B}")           // multi-key decorator returning a result object
	pMfl   = u.F("pMfl", "", "{B;[A]+g!2}")        // B plus two flattened members of g
	dGmiss = u.F("dGmiss", "{A*g},C", "{[A]!1+g}") // group decorator with a dependency nobody provides
	dGpub  = u.F("dGpub", "{A*g}", "{[A]!1+g},D")  // group decorator that also publishes D
	pCia   = u.F("pCia", "IA", "C")                // constructor taking the interface positionally
	dIA    = u.F("dIA", "IA", "IA")                // decorator of the interface key
)
