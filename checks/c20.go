package checks

import (
	"errors"
	"fmt"

	"go.uber.org/dig"

	"verif/explore"
	h "verif/harness"
	u "verif/universe"
)

// C20 — callbacks fire once per execution with the true outcome (style H with
// fault deviations, declared-pool functions, mock clock).

// declOnce: a declared pool function is registered at most once per history
// (its instance binding is per run).
func declOnce(r *h.Run, op Op) bool {
	if op.Fn == nil || op.Fn.Decl == "" || op.Kind == h.OpInvoke {
		return true
	}
	for _, c := range r.M.Ctors {
		if c.F.Decl == op.Fn.Decl {
			return false
		}
	}
	for _, d := range r.M.Decos {
		if d.F.Decl == op.Fn.Decl {
			return false
		}
	}
	return true
}

func callbackMonitor(c *Ctx) []Violation {
	st := c.Step
	evs := c.Run.Events(st)
	if len(evs) == 0 {
		return nil
	}
	var vs []Violation
	bad := func(rule, format string, a ...interface{}) {
		vs = append(vs, Violation{Rule: "C20/" + rule, Detail: fmt.Sprintf(format, a...)})
	}
	hasCB := func(inst string) (bool, *u.Func) {
		if ct := c.Run.M.CtorByInst(inst); ct != nil {
			return ct.F.Callback, ct.F
		}
		if d := c.Run.M.DecoByInst(inst); d != nil {
			return d.F.Callback, d.F
		}
		return false, nil
	}
	for i, e := range evs {
		switch e.Kind {
		case u.EvExit:
			cb, _ := hasCB(e.Fn)
			if !cb {
				continue
			}
			c.Hit("executions_with_callback")
			if i+1 >= len(evs) || evs[i+1].Kind != u.EvCallback || evs[i+1].Fn != e.Fn {
				bad("callback-missing", "%s executed (%s) during %s but its callback was not called right after", e.Fn, e.Outcome, st.Op)
				continue
			}
			if i+2 < len(evs) && evs[i+2].Kind == u.EvCallback && evs[i+2].Fn == e.Fn {
				bad("callback-twice", "%s executed once during %s but its callback was called twice", e.Fn, st.Op)
			}
		case u.EvCallback:
			cb, f := hasCB(e.Fn)
			if !cb {
				bad("callback-of-unregistered", "callback of %s fired during %s but no accepted registration carries it", e.Fn, st.Op)
				continue
			}
			if i == 0 || evs[i-1].Kind != u.EvExit || evs[i-1].Fn != e.Fn {
				if i > 0 && evs[i-1].Kind == u.EvCallback && evs[i-1].Fn == e.Fn {
					continue // reported as callback-twice
				}
				bad("callback-without-execution", "callback of %s fired during %s although the function was not executed", e.Fn, st.Op)
				continue
			}
			ex := evs[i-1]
			c.Hit("callbacks_checked")
			switch ex.Outcome {
			case u.BehOK:
				if e.CBErr != nil {
					bad("callback-error-on-success", "%s succeeded but its callback got %v", e.Fn, e.CBErr)
				}
			case u.BehErr, u.BehErrVals:
				if dig.RootCause(e.CBErr) != error(ex.Err) {
					bad("callback-wrong-error", "%s returned %v but its callback got %v", e.Fn, ex.Err, e.CBErr)
				}
			case u.BehPanic:
				if c.Sc.Cfg.Recover {
					var pe dig.PanicError
					if !errors.As(e.CBErr, &pe) || pe.Panic != interface{}(ex.Panic) {
						bad("callback-no-PanicError", "%s panicked (recovered) but its callback got %v", e.Fn, e.CBErr)
					}
				}
			}
			if f.Decl != "" {
				want := "verif/universe." + f.Decl
				if f.LocPC != "" {
					want = "verif/universe." + f.LocPC // the function dig names is the one at the given location
				}
				if e.CBName != want {
					bad("callback-wrong-name", "callback of %s reports Name %q, want %q", e.Fn, e.CBName, want)
				}
			}
			if want := c.Run.RT.Cost(e.Fn); e.CBRuntime != want {
				bad("callback-wrong-runtime", "callback of %s reports Runtime %v; the function itself took %v (mock clock)", e.Fn, e.CBRuntime, want)
			}
		}
	}
	return vs
}

func init() {
	explore.Register(&explore.Check{
		ID:    "C20",
		Rule:  "All histories over declared-pool constructors / group feeders / decorators, each with and without a callback, in two scopes with Export, <=3 Invokes, for every single fault deviation (error, panic, fail-once-then-succeed) and RecoverFromPanics off/on, under a harness-driven clock in which every function body advances time by its own distinctive amount.",
		Units: c20Units,
		Assumptions: []string{
			"with RecoverFromPanics off the statement says nothing about Error after a panic: only 'exactly once' is asserted there",
		},
	})
}

func c20Units(tier string) []Unit {
	q := quick(tier)
	var units []Unit
	cb := u.WithCallback
	d, b := 5, explore.Budget{Provides: 3, Decorates: 1, Invokes: 2, Rejected: 1}
	if !q {
		d, b = 7, explore.Budget{Provides: 3, Decorates: 2, Invokes: 3, Rejected: 1}
	}
	type fam struct {
		name   string
		a      alpha
		faulty []string
	}
	// some registrations carry further options next to the callback, before or
	// after it in the option list (Fill*Info; LocationForPC)
	info, rev := u.WithInfo, u.OptsReversed
	fams := []fam{
		{"chain", alpha{scopes: []int{0, 1}, ctors: []*uFunc{u.D("DAe", cb), u.D("DAe"), u.D("DBe", cb, info), u.D("DBe"), u.D("DCe", cb, info, rev), u.D("DAe", cb, u.LocationOf("DB"))}, export: !q,
			decos: []*uFunc{u.D("DdAe", cb, info), u.D("DdAe")}, invokes: []*uFunc{iA, iB, iC}}, []string{"DAe", "DBe", "DCe", "DdAe"}},
		{"groups", alpha{scopes: []int{0, 1}, ctors: []*uFunc{u.D("DG1e", cb), u.D("DG2", cb, info), u.D("DCge", cb), u.D("DCge")},
			decos: []*uFunc{u.D("DdGe", cb, info, rev)}, invokes: []*uFunc{iG, iC, iGs}}, []string{"DG1e", "DCge", "DdGe"}},
		{"rejected-with-callbacks", alpha{scopes: []int{0, 1}, ctors: []*uFunc{u.D("DA", cb), u.D("DA2", cb), u.D("DB", cb), u.D("DC", cb)}, export: true,
			decos: []*uFunc{u.D("DdA", cb), u.D("DdBe", cb)}, invokes: []*uFunc{iA, iB, iC}}, []string{"DdBe"}},
	}
	// re-entry through a decorator: the callback of the re-entered constructor
	// fires for its one execution only
	fams = append(fams,
		fam{"reentry-single", alpha{scopes: []int{0, 1}, ctors: []*uFunc{pA, pB.With("pBcb", cb)},
			decos: []*uFunc{dABae.With("dABaecb", cb)}, invokes: []*uFunc{iA, iB}}, []string{"dABaecb"}},
		fam{"reentry-group", alpha{scopes: []int{0, 1}, ctors: []*uFunc{pA, fBgA.With("fBgAcb", cb)},
			decos: []*uFunc{dGBAe.With("dGBAecb", cb)}, invokes: []*uFunc{iA, iGB}}, []string{"dGBAecb"}})
	behs := [][]u.Beh{{u.BehOK}, {u.BehErr}, {u.BehPanic}, {u.BehErr, u.BehOK}}
	if !q {
		behs = append(behs, []u.Beh{u.BehErrVals, u.BehOK}, []u.Beh{u.BehPanic, u.BehOK})
	}
	for _, f := range fams {
		for _, plan := range faultPlans(f.faulty, behs, false) {
			for _, rec := range []bool{false, true} {
				allowed := declOnce // DA then DA2 (same key) gets DA2 rejected while carrying a callback
				units = append(units, Unit{Sc: &Scenario{
					Name: fmt.Sprintf("%s/%s/recover=%v", f.name, plansText(plan), rec), Cfg: h.Config{Recover: rec}, Plans: plan,
					Prefix: prefixChild, Alphabet: f.a.ops(), Depth: d, Budget: b, Allowed: allowed, Monitors: []explore.Monitor{callbackMonitor},
				}})
			}
		}
	}
	return units
}
