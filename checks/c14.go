package checks

import (
	"fmt"
	"reflect"
	"strings"

	"go.uber.org/dig"

	"verif/explore"
	h "verif/harness"
	u "verif/universe"
)

// C14 — bad input yields errors, never panics (style I x D: a grammar of
// values, signatures, tags and options applied at three entry points in
// several contexts; rejected inputs compared with the untouched context).

type shape struct {
	name     string
	types    []reflect.Type
	variadic bool
}

var (
	tyA    = u.TypeOf("A")
	tyB    = u.TypeOf("B")
	tyIA   = u.TypeOf("IA")
	tyNS   = u.TypeOf("NS")
	tyNS2  = u.TypeOf("NS2")
	tyErr  = u.TypeOf("error")
	tyInt  = u.TypeOf("int")
	tyIn   = reflect.TypeOf(dig.In{})
	tyOut  = reflect.TypeOf(dig.Out{})
	tyInP  = reflect.TypeOf(&dig.In{})
	tyOutP = reflect.TypeOf(&dig.Out{})
)

func sf(name string, t reflect.Type, tag string) reflect.StructField {
	f := reflect.StructField{Name: name, Type: t, Tag: reflect.StructTag(tag)}
	if name[0] >= 'a' && name[0] <= 'z' {
		f.PkgPath = "verif/checks"
	}
	return f
}

func emb(t reflect.Type, tag string) reflect.StructField {
	name := t.Name()
	if t.Kind() == reflect.Ptr {
		name = t.Elem().Name()
	}
	if name == "" {
		name = "E"
	}
	return reflect.StructField{Name: name, Type: t, Anonymous: true, Tag: reflect.StructTag(tag)}
}

func st(fields ...reflect.StructField) reflect.Type { return reflect.StructOf(fields) }

// fieldTags: the tag grammar for one field of an In / Out object.
var fieldTags = []string{
	``, `name:"n"`, `name:""`, `optional:"true"`, `optional:"false"`, `optional:"yes"`, `optional:""`,
	`group:"g"`, `group:"g,flatten"`, `group:"g,soft"`, `group:"g,bogus"`, `group:",flatten"`, `group:",soft"`, `group:"g,flatten,soft"`, `group:","`,
	`name:"n" group:"g"`, `optional:"true" group:"g"`, `optional:"yes" group:"g"`, `name:"n" optional:"true"`, `name:"a` + "`" + `b"`,
}

func paramShapes(quick bool) []shape {
	s := []shape{
		{"none", nil, false},
		{"A", []reflect.Type{tyA}, false},
		{"A,B", []reflect.Type{tyA, tyB}, false},
		{"*struct{}", []reflect.Type{reflect.PtrTo(st())}, false},
		{"struct{X int}", []reflect.Type{st(sf("X", tyInt, ""))}, false},
		{"[]A", []reflect.Type{reflect.SliceOf(tyA)}, false},
		{"NS", []reflect.Type{tyNS}, false},
		{"IA", []reflect.Type{tyIA}, false},
		{"error", []reflect.Type{tyErr}, false},
		{"int", []reflect.Type{tyInt}, false},
		{"func()", []reflect.Type{reflect.FuncOf(nil, nil, false)}, false},
		{"map[int]A", []reflect.Type{reflect.MapOf(tyInt, tyA)}, false},
		{"[2]A", []reflect.Type{reflect.ArrayOf(2, tyA)}, false},
		{"chan<- A", []reflect.Type{reflect.ChanOf(reflect.SendDir, tyA)}, false},
		{"...A", []reflect.Type{reflect.SliceOf(tyA)}, true},
		{"A,...int", []reflect.Type{tyA, reflect.SliceOf(tyInt)}, true},
		{"In{*In}", []reflect.Type{st(emb(tyInP, ""), sf("F", tyA, ""))}, false},
		{"*In-struct", []reflect.Type{reflect.PtrTo(st(emb(tyIn, ""), sf("F", tyA, "")))}, false},
		{"In+Out", []reflect.Type{st(emb(tyIn, ""), emb(tyOut, ""), sf("F", tyA, ""))}, false},
		{"Out-as-param", []reflect.Type{st(emb(tyOut, ""), sf("F", tyA, ""))}, false},
		{"*Out-struct", []reflect.Type{reflect.PtrTo(st(emb(tyOut, "")))}, false},
		{"In{*Out}", []reflect.Type{st(emb(tyIn, ""), emb(tyOutP, ""))}, false},
		{"In-depth2", []reflect.Type{st(emb(tyIn, ""), sf("F", st(emb(tyIn, ""), sf("G", tyA, `optional:"true"`)), ""))}, false},
		{"In-depth3", []reflect.Type{st(emb(tyIn, ""), sf("F", st(emb(tyIn, ""), sf("G", st(emb(tyIn, ""), sf("H", reflect.SliceOf(tyA), `group:"g"`)), "")), ""))}, false},
		{"In{F *In-struct}", []reflect.Type{st(emb(tyIn, ""), sf("F", reflect.PtrTo(st(emb(tyIn, ""))), ""))}, false},
		{"In{F Out-struct}", []reflect.Type{st(emb(tyIn, ""), sf("F", st(emb(tyOut, ""), sf("G", tyA, "")), ""))}, false},
		{"In{embedded-struct-with-In}", []reflect.Type{st(emb(st(emb(tyIn, "")), ""), sf("F", tyA, ""))}, false},
		{"In{unexported}", []reflect.Type{st(emb(tyIn, ""), sf("F", tyA, ""), sf("x", tyA, ""))}, false},
		{"In{unexported,ignore=true}", []reflect.Type{st(emb(tyIn, `ignore-unexported:"true"`), sf("F", tyA, ""), sf("x", tyA, ""))}, false},
		{"In{unexported,ignore=false}", []reflect.Type{st(emb(tyIn, `ignore-unexported:"false"`), sf("F", tyA, ""), sf("x", tyA, ""))}, false},
		{"In{unexported,ignore=junk}", []reflect.Type{st(emb(tyIn, `ignore-unexported:"junk"`), sf("F", tyA, ""), sf("x", tyA, ""))}, false},
		{"In{only-unexported,ignore=true}", []reflect.Type{st(emb(tyIn, `ignore-unexported:"true"`), sf("x", tyA, ""))}, false},
		{"In{ignore=true;x;F}", []reflect.Type{st(emb(tyIn, `ignore-unexported:"true"`), sf("x", tyA, ""), sf("F", tyA, ""))}, false},
		{"In{x;ignore=true;F}", []reflect.Type{st(sf("x", tyA, ""), emb(tyIn, `ignore-unexported:"true"`), sf("F", tyA, ""))}, false},
		{"In{F;x;G,ignore=true}", []reflect.Type{st(emb(tyIn, `ignore-unexported:"true"`), sf("F", tyA, ""), sf("x", tyB, ""), sf("G", tyB, `optional:"true"`))}, false},
		{"In{G In{ignore=true;x;F}}", []reflect.Type{st(emb(tyIn, ""), sf("G", st(emb(tyIn, `ignore-unexported:"true"`), sf("x", tyA, ""), sf("F", tyA, "")), ""))}, false},
	}
	for _, tag := range fieldTags {
		s = append(s, shape{"In{F A `" + tag + "`}", []reflect.Type{st(emb(tyIn, ""), sf("F", tyA, tag))}, false})
		if tag != "" && !quick {
			s = append(s, shape{"In{F A;x []A `" + tag + "`}", []reflect.Type{st(emb(tyIn, ""), sf("F", tyA, ""), sf("x", reflect.SliceOf(tyA), tag))}, false})
			s = append(s, shape{"In{ignore-unexported;x []A `" + tag + "`}", []reflect.Type{st(emb(tyIn, `ignore-unexported:"true"`), sf("F", tyA, ""), sf("x", reflect.SliceOf(tyA), tag))}, false})
		}
		s = append(s, shape{"In{F []A `" + tag + "`}", []reflect.Type{st(emb(tyIn, ""), sf("F", reflect.SliceOf(tyA), tag))}, false})
		if strings.Contains(tag, "group") {
			s = append(s, shape{"In{F int `" + tag + "`}", []reflect.Type{st(emb(tyIn, ""), sf("F", tyInt, tag))}, false})
		}
		if !quick {
			s = append(s, shape{"In{F NS `" + tag + "`}", []reflect.Type{st(emb(tyIn, ""), sf("F", tyNS, tag))}, false})
			s = append(s, shape{"In{G{F []A `" + tag + "`}}", []reflect.Type{st(emb(tyIn, ""), sf("G", st(emb(tyIn, ""), sf("F", reflect.SliceOf(tyA), tag)), ""))}, false})
		}
	}
	return s
}

func resultShapes(quick bool) []shape {
	s := []shape{
		{"none", nil, false},
		{"A", []reflect.Type{tyA}, false},
		{"A,error", []reflect.Type{tyA, tyErr}, false},
		{"error", []reflect.Type{tyErr}, false},
		{"error,A", []reflect.Type{tyErr, tyA}, false},
		{"A,error,B", []reflect.Type{tyA, tyErr, tyB}, false},
		{"A,A", []reflect.Type{tyA, tyA}, false},
		// results whose type implements error but cannot be nil (the zero value is a failure)
		{"A,EI", []reflect.Type{tyA, reflect.TypeOf(u.EI(0))}, false},
		{"ES,A", []reflect.Type{reflect.TypeOf(u.ES{}), tyA}, false},
		{"*ES", []reflect.Type{reflect.TypeOf(&u.ES{})}, false},
		{"*struct{}", []reflect.Type{reflect.PtrTo(st())}, false},
		{"struct{X int}", []reflect.Type{st(sf("X", tyInt, ""))}, false},
		{"[]A", []reflect.Type{reflect.SliceOf(tyA)}, false},
		{"NS", []reflect.Type{tyNS}, false},
		{"IA", []reflect.Type{tyIA}, false},
		{"int", []reflect.Type{tyInt}, false},
		{"func()", []reflect.Type{reflect.FuncOf(nil, nil, false)}, false},
		{"Out{*Out}", []reflect.Type{st(emb(tyOutP, ""), sf("F", tyA, ""))}, false},
		{"*Out-struct", []reflect.Type{reflect.PtrTo(st(emb(tyOut, ""), sf("F", tyA, "")))}, false},
		{"In-as-result", []reflect.Type{st(emb(tyIn, ""), sf("F", tyA, ""))}, false},
		{"*In-struct", []reflect.Type{reflect.PtrTo(st(emb(tyIn, "")))}, false},
		{"In+Out", []reflect.Type{st(emb(tyIn, ""), emb(tyOut, ""), sf("F", tyA, ""))}, false},
		{"Out{}", []reflect.Type{st(emb(tyOut, ""))}, false},
		{"Out-depth2", []reflect.Type{st(emb(tyOut, ""), sf("F", st(emb(tyOut, ""), sf("G", tyA, `name:"n"`)), ""))}, false},
		{"Out-depth3", []reflect.Type{st(emb(tyOut, ""), sf("F", st(emb(tyOut, ""), sf("G", st(emb(tyOut, ""), sf("H", reflect.SliceOf(tyA), `group:"g,flatten"`)), "")), ""))}, false},
		{"Out{F *Out-struct}", []reflect.Type{st(emb(tyOut, ""), sf("F", reflect.PtrTo(st(emb(tyOut, ""))), ""))}, false},
		{"Out{F In-struct}", []reflect.Type{st(emb(tyOut, ""), sf("F", st(emb(tyIn, ""), sf("G", tyA, "")), ""))}, false},
		{"Out{F error}", []reflect.Type{st(emb(tyOut, ""), sf("F", tyErr, ""))}, false},
		{"Out{unexported}", []reflect.Type{st(emb(tyOut, ""), sf("F", tyA, ""), sf("x", tyA, ""))}, false},
		{"Out{A;A}", []reflect.Type{st(emb(tyOut, ""), sf("F", tyA, ""), sf("G", tyA, ""))}, false},
		// whole-group results (what a group decorator returns) of every slice flavour
		{"Out{F NS `group:g`}", []reflect.Type{st(emb(tyOut, ""), sf("F", tyNS, `group:"g"`))}, false},
		{"Out{F NS2 `group:g`}", []reflect.Type{st(emb(tyOut, ""), sf("F", tyNS2, `group:"g"`))}, false},
		{"Out{F [][]A `group:g`}", []reflect.Type{st(emb(tyOut, ""), sf("F", reflect.SliceOf(reflect.SliceOf(tyA)), `group:"g"`))}, false},
		{"Out{F [][]A `group:g,flatten`}", []reflect.Type{st(emb(tyOut, ""), sf("F", reflect.SliceOf(reflect.SliceOf(tyA)), `group:"g,flatten"`))}, false},
		{"Out{F []NS `group:g,flatten`}", []reflect.Type{st(emb(tyOut, ""), sf("F", reflect.SliceOf(tyNS), `group:"g,flatten"`))}, false},
		{"Out{F []IA `group:g`}", []reflect.Type{st(emb(tyOut, ""), sf("F", reflect.SliceOf(tyIA), `group:"g"`))}, false},
		{"Out{G Out{F []A `group:g`}}", []reflect.Type{st(emb(tyOut, ""), sf("G", st(emb(tyOut, ""), sf("F", reflect.SliceOf(tyA), `group:"g"`)), ""))}, false},
		{"Out{G Out{F A `group:g`}}", []reflect.Type{st(emb(tyOut, ""), sf("G", st(emb(tyOut, ""), sf("F", tyA, `group:"g"`)), ""))}, false},
		{"Out{G Out{F int `group:g`}}", []reflect.Type{st(emb(tyOut, ""), sf("G", st(emb(tyOut, ""), sf("F", tyInt, `group:"g"`)), ""))}, false},
		{"Out{E{Out;F A `group:g`}}", []reflect.Type{st(emb(tyOut, ""), sf("G", st(emb(st(emb(tyOut, "")), ""), sf("F", tyA, `group:"g"`)), ""))}, false},
	}
	for _, tag := range fieldTags {
		s = append(s, shape{"Out{F A `" + tag + "`}", []reflect.Type{st(emb(tyOut, ""), sf("F", tyA, tag))}, false})
		if tag != "" {
			// the same tags on an unexported field
			s = append(s, shape{"Out{F A;x A `" + tag + "`}", []reflect.Type{st(emb(tyOut, ""), sf("F", tyA, ""), sf("x", tyA, tag))}, false})
			s = append(s, shape{"Out{x []A `" + tag + "`}", []reflect.Type{st(emb(tyOut, ""), sf("x", reflect.SliceOf(tyA), tag))}, false})
		}
		s = append(s, shape{"Out{F []A `" + tag + "`}", []reflect.Type{st(emb(tyOut, ""), sf("F", reflect.SliceOf(tyA), tag))}, false})
		if !quick {
			s = append(s, shape{"Out{F NS `" + tag + "`}", []reflect.Type{st(emb(tyOut, ""), sf("F", tyNS, tag))}, false})
			s = append(s, shape{"Out{F IA `" + tag + "`}", []reflect.Type{st(emb(tyOut, ""), sf("F", tyIA, tag))}, false})
		}
	}
	return s
}

type optShape struct {
	name string
	opts func() []dig.ProvideOption
}

func provideOptionShapes(quick bool) []optShape {
	o := func(name string, f func() []dig.ProvideOption) optShape { return optShape{name, f} }
	one := func(p dig.ProvideOption) func() []dig.ProvideOption {
		return func() []dig.ProvideOption { return []dig.ProvideOption{p} }
	}
	s := []optShape{
		o("none", func() []dig.ProvideOption { return nil }),
		o(`Name("n")`, one(dig.Name("n"))),
		o("Name(backquote)", one(dig.Name("a`b"))),
		o(`Group("g")`, one(dig.Group("g"))),
		o(`Group("g,flatten")`, one(dig.Group("g,flatten"))),
		o(`Group(",flatten")`, one(dig.Group(",flatten"))),
		o(`Group(",")`, one(dig.Group(","))),
		o(`Group("g,soft")`, one(dig.Group("g,soft"))),
		o(`Group("g,bogus")`, one(dig.Group("g,bogus"))),
		o("Group(backquote)", one(dig.Group("g`"))),
		o("Name+Group", func() []dig.ProvideOption { return []dig.ProvideOption{dig.Name("n"), dig.Group("g")} }),
		o("As(nil)", one(dig.As(nil))),
		o("As()", one(dig.As())),
		o("As(5)", one(dig.As(5))),
		o("As(new(int))", one(dig.As(new(int)))),
		o("As(new(IA))", one(dig.As(new(u.IA)))),
		o("As(new(IAB))", one(dig.As(new(u.IAB)))),
		o("As(new(INS))", one(dig.As(new(u.INS)))),
		o("As(IA)+Name", func() []dig.ProvideOption { return []dig.ProvideOption{dig.As(new(u.IA)), dig.Name("n")} }),
		o("As(IA)+Group", func() []dig.ProvideOption { return []dig.ProvideOption{dig.As(new(u.IA)), dig.Group("g")} }),
		o("As(INS)+Group(flatten)", func() []dig.ProvideOption {
			return []dig.ProvideOption{dig.As(new(u.INS)), dig.Group("g,flatten")}
		}),
		o("As(IA)+Group(flatten)", func() []dig.ProvideOption {
			return []dig.ProvideOption{dig.As(new(u.IA)), dig.Group("g,flatten")}
		}),
		o("Export", one(dig.Export(true))),
		o("FillProvideInfo(nil)", one(dig.FillProvideInfo(nil))),
		o("FillProvideInfo", func() []dig.ProvideOption { return []dig.ProvideOption{dig.FillProvideInfo(&dig.ProvideInfo{})} }),
		o("LocationForPC(0)", one(dig.LocationForPC(0))),
		o("WithProviderCallback(nil)", one(dig.WithProviderCallback(nil))),
	}
	return s
}

// nonFunctions: values that are not functions, plus typed nil functions.
func nonFunctions() []struct {
	name string
	v    interface{}
} {
	var nilFunc func() *u.TA
	var nilFunc2 func(*u.TA)
	var nilPtr *int
	return []struct {
		name string
		v    interface{}
	}{
		{"untyped nil", nil}, {"typed nil func() A", nilFunc}, {"typed nil func(A)", nilFunc2}, {"int", 42}, {"string", "x"},
		{"struct", struct{ X int }{1}}, {"pointer", new(int)}, {"nil pointer", nilPtr}, {"chan", make(chan int)}, {"map", map[string]int{}},
		{"slice", []int{1}}, {"dig.In value", dig.In{}}, {"*dig.Out", &dig.Out{}}, {"reflect.Type", tyA},
	}
}

func zeroFunc(in, out []reflect.Type, variadic bool) interface{} {
	ft := reflect.FuncOf(in, out, variadic)
	return reflect.MakeFunc(ft, func([]reflect.Value) []reflect.Value {
		res := make([]reflect.Value, len(out))
		for i, t := range out {
			res[i] = reflect.Zero(t)
		}
		return res
	}).Interface()
}

// contexts in which every input is tried.
func c14Contexts() [][]Op {
	return [][]Op{
		nil,
		{scopeOp(0), provide(0, pA), provide(1, pB), provide(0, fG1), decorate(1, dA)},
		{scopeOp(0), provide(0, pA), provide(0, pB), provide(0, fG1), invoke(1, iB), invoke(0, iG)},
	}
}

// probes run after every input (and used to compare a rejected input with the
// untouched context).
func rawInvoke(scope int, desc string, in ...reflect.Type) Op {
	return Op{Kind: h.OpInvoke, Scope: scope, RawDesc: desc, Raw: func(*h.Run) (interface{}, []dig.ProvideOption) { return zeroFunc(in, nil, false), nil }}
}

func c14Probes() []Op {
	grp := func(t reflect.Type, tag string) reflect.Type { return st(emb(tyIn, ""), sf("F", t, tag)) }
	return []Op{
		rawInvoke(0, "invoke func(In{F NS `group:g`})", grp(tyNS, `group:"g"`)),
		rawInvoke(1, "invoke func(In{F NS2 `group:g`})", grp(tyNS2, `group:"g"`)),
		rawInvoke(0, "invoke func(In{F NS2 `group:g,soft`})", grp(tyNS2, `group:"g,soft"`)),
		rawInvoke(0, "invoke func(In{F [][]A `group:g`})", grp(reflect.SliceOf(reflect.SliceOf(tyA)), `group:"g"`)),
		rawInvoke(0, "invoke func(In{F []IA `group:g`})", grp(reflect.SliceOf(tyIA), `group:"g"`)),
		invoke(0, iA), invoke(0, iB), invoke(0, iG), invoke(0, iO), invoke(1, iA), provide(0, pA2), provide(0, pDd), {Kind: h.OpVisualize}, {Kind: h.OpString, Scope: 0}, {Kind: h.OpString, Scope: 1}}
}

type c14Input struct {
	desc  string
	entry h.OpKind
	make  func() (interface{}, []dig.ProvideOption)
}

func c14Inputs(tier string) []c14Input {
	q := quick(tier)
	var out []c14Input
	ps, rs, os := paramShapes(q), resultShapes(q), provideOptionShapes(q)
	for _, nf := range nonFunctions() {
		nf := nf
		for _, e := range []h.OpKind{h.OpProvide, h.OpDecorate, h.OpInvoke} {
			out = append(out, c14Input{fmt.Sprintf("%s(%s)", e, nf.name), e, func() (interface{}, []dig.ProvideOption) { return nf.v, nil }})
		}
		out = append(out, c14Input{fmt.Sprintf("provide(%s, Name+As)", nf.name), h.OpProvide, func() (interface{}, []dig.ProvideOption) {
			return nf.v, []dig.ProvideOption{dig.Name("n"), dig.As(new(u.IA))}
		}})
	}
	for _, p := range ps {
		for _, r := range rs {
			p, r := p, r
			mk := func() interface{} { return zeroFunc(p.types, r.types, p.variadic) }
			// Provide with every option on simple parameter shapes; with no option on all
			for oi, o := range os {
				if oi > 0 && len(p.types) > 1 {
					continue
				}
				if oi > 0 && q && !(p.name == "none" || p.name == "A") {
					continue
				}
				o := o
				out = append(out, c14Input{fmt.Sprintf("provide func(%s)(%s) %s", p.name, r.name, o.name), h.OpProvide, func() (interface{}, []dig.ProvideOption) { return mk(), o.opts() }})
			}
			out = append(out, c14Input{fmt.Sprintf("decorate func(%s)(%s)", p.name, r.name), h.OpDecorate, func() (interface{}, []dig.ProvideOption) { return mk(), nil }})
		}
		for _, r := range rs[:6] {
			p, r := p, r
			out = append(out, c14Input{fmt.Sprintf("invoke func(%s)(%s)", p.name, r.name), h.OpInvoke, func() (interface{}, []dig.ProvideOption) { return zeroFunc(p.types, r.types, p.variadic), nil }})
		}
	}
	return out
}

func c14Item(inputs []c14Input, contexts [][]Op) func(i int, stats map[string]int) []Violation {
	probes := c14Probes()
	return func(i int, stats map[string]int) []Violation {
		in := inputs[i/len(contexts)]
		ctx := contexts[i%len(contexts)]
		var vs []Violation
		for _, rec := range []bool{false, true} {
			cfg := h.Config{Recover: rec}
			raw := Op{Kind: in.entry, Scope: 0, RawDesc: in.desc, Raw: func(*h.Run) (interface{}, []dig.ProvideOption) { return in.make() }}
			with := h.Replay(cfg, nil, append(append([]Op{}, ctx...), raw))
			st := with.Steps[len(with.Steps)-1]
			stats["inputs_applied"]++
			stats["verdict_"+strings.SplitN(st.V.Class(), ":", 2)[0]]++
			if st.V.Escaped {
				vs = append(vs, Violation{Rule: "C14/" + in.entry.String() + "-panicked", Detail: fmt.Sprintf("%s panicked: %s", in.desc, st.V.Msg)})
				continue
			}
			if with.RT.Depth != 0 || st.LogTo != st.LogFrom && in.entry != h.OpInvoke {
				vs = append(vs, Violation{Rule: "C14/registration-executed-user-code", Detail: in.desc})
			}
			base := h.Replay(cfg, nil, ctx)
			rejected := !st.V.OK
			for _, p := range probes {
				if p.Scope >= len(base.Scopes) {
					continue
				}
				a := h.Replay(cfg, nil, append(append([]Op{}, ctx...), p))
				b := h.Replay(cfg, nil, append(append(append([]Op{}, ctx...), raw), p))
				sa, sb := a.Steps[len(a.Steps)-1], b.Steps[len(b.Steps)-1]
				if sb.V.Escaped && !sa.V.Escaped {
					vs = append(vs, Violation{Rule: "C14/later-" + p.Kind.String() + "-panicked", Detail: fmt.Sprintf("after %s (=> %s), %s panicked: %s", in.desc, st.V.Class(), p, sb.V.Msg)})
					break
				}
				if rejected && in.entry != h.OpInvoke {
					stats["rejected_inputs_compared"]++
					if oa, ob := obsText(a, sa), obsText(b, sb); oa != ob {
						vs = append(vs, Violation{Rule: "C14/rejected-input-changed-something", Detail: fmt.Sprintf("after rejected %s, %s yields %q but %q without it", in.desc, p, clip(ob), clip(oa))})
						break
					}
				}
			}
			if len(vs) > 0 {
				break
			}
		}
		return vs
	}
}

func init() {
	explore.Register(&explore.Check{
		ID:               "C14",
		DeathIsViolation: true,
		Rule:             "Every input from a grammar of values (nil, typed nil functions, non-functions) and function signatures (parameter shapes x result shapes: plain, pointer, struct, slice, named slice with method, interface, error anywhere, variadic, In/Out embedded by value / by pointer / both / nested to depth 3 / pointer to such a struct / on the wrong side, unexported fields with every ignore-unexported value, every tag string of a 20-element tag grammar on plain and slice fields) x Provide options (names, groups incl. malformed, As incl. nil / non-pointer / non-interface / unimplemented / own type / with flatten, Export, Info(nil), LocationForPC(0), callback(nil)), applied as Provide, Decorate and Invoke in three contexts with RecoverFromPanics off and on, followed by a probe sweep (Invokes, Provides, Visualize, String).",
		Units:            c14Units,
		Assumptions: []string{
			"functions built by the grammar return zero values and never panic, so every escaping panic is dig's own",
		},
	})
}

// noPanicMonitor: no API call lets a panic of dig's own escape (a panic raised
// on purpose by a user function and propagated with RecoverFromPanics off is
// not dig's).
func noPanicMonitor(c *Ctx) []Violation {
	st := c.Step
	c.Hit("api_calls_checked_for_panics")
	if st.V.Escaped && st.V.PanicVal == nil {
		return []Violation{{Rule: "C14/" + st.Op.Kind.String() + "-panicked", Detail: fmt.Sprintf("%s panicked: %s", st.Op, st.V.Msg)}}
	}
	return nil
}

// c14FailureUnits: every API call, Visualize with the error of every failed
// Invoke and String included, on the container states that failures of user
// functions (constructors, single-value / multi-key / group decorators) leave
// behind.
func c14FailureUnits(tier string) []Unit {
	var units []Unit
	visErr := Op{Kind: h.OpVisualize, VisErr: -1}
	a := alpha{scopes: []int{0, 1}, ctors: []*uFunc{pAe, pBe, fG1e}, decos: []*uFunc{dAe, dABe, dGe}, invokes: []*uFunc{iA, iB, iG, iO}, visualize: true, str: true}
	ops := append(a.ops(), visErr)
	d, b := 5, explore.Budget{Provides: 2, Decorates: 1, Invokes: 1, Others: 1, Rejected: 1}
	if !quick(tier) {
		d, b = 6, explore.Budget{Provides: 3, Decorates: 1, Invokes: 2, Others: 1, Rejected: 1}
	}
	for _, f := range []string{"pAe", "pBe", "fG1e", "dAe", "dABe", "dGe"} {
		for _, beh := range []u.Beh{u.BehErr, u.BehPanic} {
			for _, rec := range []bool{false, true} {
				if beh == u.BehErr && rec {
					continue
				}
				units = append(units, Unit{Sc: &Scenario{Name: fmt.Sprintf("after-failures/%s=%v/recover=%v", f, beh, rec), Cfg: h.Config{Recover: rec},
					Plans: map[string][]u.Beh{f: {beh}}, Prefix: prefixChild, Alphabet: ops, Depth: d, Budget: b, Allowed: onceEach, Monitors: []explore.Monitor{noPanicMonitor}}})
			}
		}
	}
	// cycles found late (DeferAcyclicVerification), also behind exported
	// constructors and from scopes that do not see them: an error, not a panic
	ring := alpha{scopes: []int{0, 1, 2}, ctors: []*uFunc{rAB, pB, pDd}, export: true, invokes: []*uFunc{iA, iB}, visualize: true}
	for _, rec := range []bool{false, true} {
		units = append(units, Unit{Sc: &Scenario{Name: fmt.Sprintf("deferred-cycles/recover=%v", rec), Cfg: h.Config{Defer: true, Recover: rec},
			Prefix: prefixFork, Alphabet: ring.ops(), Depth: 5, Budget: explore.Budget{Provides: 3, Invokes: 2, Others: 1, Rejected: 1}, Allowed: onceEach, Monitors: []explore.Monitor{noPanicMonitor}}})
	}
	// option combinations that are only acceptable for some result types
	// (As with flatten, As with Name/Group on named slices and interfaces),
	// followed by real executions with non-empty results
	opt := alpha{scopes: []int{0, 1}, ctors: []*uFunc{fNSflAs, fNSgAs, fNSflAsA, fG1}, export: true, invokes: []*uFunc{iGins, iG, iGI}}
	for _, rec := range []bool{false, true} {
		units = append(units, Unit{Sc: &Scenario{Name: fmt.Sprintf("option-combinations-then-executions/recover=%v", rec), Cfg: h.Config{Recover: rec},
			Prefix: prefixChild, Alphabet: opt.ops(), Depth: 4, Budget: explore.Budget{Provides: 2, Invokes: 2, Rejected: 2}, Allowed: onceEach, Monitors: []explore.Monitor{noPanicMonitor}}})
	}
	return units
}

var (
	fNSflAs  = u.F("fNSflAs", "", "NS", u.GroupFlat("g", 2), u.As("INS")) // the named slice, not its elements, implements INS
	fNSflAsA = u.F("fNSflAsA", "", "NS", u.GroupFlat("g", 2), u.As("IA")) // its elements, not the slice, implement IA
	fNSgAs   = u.F("fNSgAs", "", "NS", u.Group("g"), u.As("INS"))
	iGins    = u.F("iGins", "{INS*g}", "")
)

func c14Units(tier string) []Unit {
	inputs := c14Inputs(tier)
	contexts := c14Contexts()
	return append(c14FailureUnits(tier), Unit{En: &explore.Enum{
		Name: "inputs-x-contexts", N: len(inputs) * len(contexts), Run: c14Item(inputs, contexts),
		Describe: func(i int) string {
			return fmt.Sprintf("%s in context %d", inputs[i/len(contexts)].desc, i%len(contexts))
		},
	}})
}
