package checks

import (
	"fmt"
	"sort"

	"verif/explore"
	h "verif/harness"
	"verif/model"
	u "verif/universe"
)

// Style-H checks with fault deviations: C07, C13.

var (
	pMe   = u.F("pMe", "", "{B@n;A+g},error") // multi-result, named + group member
	pABe  = u.F("pABe", "", "A,{B@n},error")  // two results
	fG1e  = u.F("fG1e", "", "A,error", u.Group("g"))
	dABe  = u.F("dABe", "A,B", "A,B,error")
	dGe   = u.F("dGe", "{A*g}", "{[A]!1+g},error")
	pCe   = u.F("pCe", "{B?;A*g}", "C,error")
	pCbe  = u.F("pCbe", "B", "C,error")
	iAe   = u.F("iAe", "A", "error")
	iBe   = u.F("iBe", "B", "error")
	iCe   = u.F("iCe", "C", "error")
	iOe   = u.F("iOe", "{A?;B@n?;A*g}", "error")
	pBp   = u.F("pBp", "A", "B") // no error result: can only panic
	dAp   = u.F("dAp", "A", "A")
	pCobe = u.F("pCobe", "{B?}", "C,error")
	// error result in a position other than the last
	pAef  = u.F("pAef", "", "error,A")
	pBem  = u.F("pBem", "A", "B,error,{B@n}")
	dAef  = u.F("dAef", "A", "error,A")
	pAce  = u.F("pAce", "", "A", u.CustomErr) // error result declared as an interface embedding error
	fG1ce = u.F("fG1ce", "", "A", u.Group("g"), u.CustomErr)
	pC0e  = u.F("pC0e", "", "C,error") // C without dependencies; may fail
	dAwC  = u.F("dAwC", "A,C", "A")    // decorator of A that also needs C
)

// failedValueMonitor: no value of a failed execution is ever delivered.
func failedValueMonitor(prefix string) func(c *Ctx) []Violation {
	return func(c *Ctx) []Violation {
		st := c.Step
		if st.LogTo == st.LogFrom {
			return nil
		}
		var vs []Violation
		li := indexLog(c.Run.RT.Log)
		for i := st.LogFrom; i < st.LogTo; i++ {
			e := c.Run.RT.Log[i]
			if e.Kind != u.EvEnter {
				continue
			}
			for _, a := range e.Args {
				for _, t := range a.Toks {
					if t.IsZero() {
						continue
					}
					c.Hit("delivered_values_checked")
					r := li.byKey[fmt.Sprintf("%s.%d", t.Fn, t.Exec)]
					if r == nil || r.exit < 0 || r.outcome != u.BehOK {
						vs = append(vs, Violation{Rule: prefix + "/value-of-failed-execution-delivered", Detail: fmt.Sprintf("%s received %v, produced by an execution that failed", e.Fn, t)})
					}
				}
			}
		}
		return vs
	}
}

// retryMonitor: a failed function is not marked done. A successful Invoke
// implies every member of its must-run closure completed successfully (so a
// previously failed one was executed again), and a failing Invoke's user error
// stems from an execution of this very Invoke, not from a stale earlier one.
func retryMonitor(prefix string) func(c *Ctx) []Violation {
	return func(c *Ctx) []Violation {
		st := c.Step
		if st.Op.Kind != h.OpInvoke || st.Op.Fn == nil {
			return nil
		}
		var vs []Violation
		m := c.Run.M
		li := indexLog(c.Run.RT.Log)
		if st.V.OK {
			must := m.MustRun(st.Op.Scope, st.Op.Fn.PLeaves(), model.DecoSet{}, li.doneBefore(st.LogFrom))
			done := li.doneBefore(st.LogTo)
			for inst := range must {
				c.Hit("retry_must_run_checked")
				if !done(inst) {
					vs = append(vs, Violation{Rule: prefix + "/failed-function-not-retried", Detail: fmt.Sprintf("%s succeeded although %s, which it needs, has never completed successfully", st.Op, inst)})
				}
			}
			return vs
		}
		if st.V.User != nil {
			fresh := false
			for _, e := range c.Run.Events(st) {
				if e.Kind == u.EvExit && e.Err == st.V.User {
					fresh = true
				}
			}
			c.Hit("user_errors_checked_fresh")
			if !fresh {
				vs = append(vs, Violation{Rule: prefix + "/stale-error-returned", Detail: fmt.Sprintf("%s returned %v, which no execution during this Invoke produced", st.Op, st.V.User)})
			}
		}
		return vs
	}
}

func plansText(p map[string][]u.Beh) string {
	var ks []string
	for k := range p {
		ks = append(ks, k)
	}
	sort.Strings(ks)
	s := ""
	for _, k := range ks {
		s += fmt.Sprintf("%s=%v;", k, p[k])
	}
	return s
}

// onePlans: every single fault deviation over fns; twoPlans: every pair.
func faultPlans(fns []string, behs [][]u.Beh, two bool) []map[string][]u.Beh {
	var out []map[string][]u.Beh
	for _, f := range fns {
		for _, b := range behs {
			out = append(out, map[string][]u.Beh{f: b})
		}
	}
	if two {
		for i, f := range fns {
			for _, g := range fns[i+1:] {
				for _, b1 := range behs {
					for _, b2 := range behs {
						out = append(out, map[string][]u.Beh{f: b1, g: b2})
					}
				}
			}
		}
	}
	return out
}

func init() {
	explore.Register(&explore.Check{
		ID:    "C07",
		Rule:  "For every fault plan with <=2 deviations (which function fails, by error / panic / error-with-values, on which execution) over constructors (single, multi-result, named, group-feeding) and decorators (single, multi-key, group), RecoverFromPanics on/off: all histories of registrations followed by every continuation of <=3 Invokes demanding the same keys from every scope.",
		Units: c07Units,
		Assumptions: []string{
			"fault deviations bounded at 2 (CHESS-style deviation bound); default environment answer is success",
		},
	})
	explore.Register(&explore.Check{
		ID:    "C13",
		Rule:  "For every failure source (each constructor, decorator or the invoked function; error or panic) at depth 1-3 of chains through positional params, parameter objects, groups, decorators and scope boundaries, RecoverFromPanics on/off, plus dig's own rejections (missing type, cycle at Provide, cycle at Invoke under Defer, duplicate): all histories up to the bounds, classification oracle on the returned error.",
		Units: c13Units,
		Assumptions: []string{
			"IsCycleDetected is required only when a cycle is the definite cause and forbidden only when the most permissive graph is acyclic (DESIGN.md §3.6-5)",
		},
	})
}

func c07Units(tier string) []Unit {
	mons := []explore.Monitor{failedValueMonitor("C07"), faultSurfacesMonitor("C07"), retryMonitor("C07"), singletonMonitor("C07"), resolutionMonitor("C07")}
	var units []Unit
	q := quick(tier)
	d, b := 6, explore.Budget{Provides: 3, Decorates: 1, Invokes: 3, Rejected: 0}
	if !q {
		d, b = 7, explore.Budget{Provides: 3, Decorates: 2, Invokes: 3, Rejected: 0}
	}
	behs := [][]u.Beh{{u.BehErr, u.BehOK}, {u.BehPanic, u.BehOK}, {u.BehErrVals, u.BehOK}}
	if !q {
		behs = append(behs, []u.Beh{u.BehErrVals, u.BehErr, u.BehOK}, []u.Beh{u.BehOK, u.BehErr})
	}
	type family struct {
		name   string
		a      alpha
		faulty []string
		prefix []Op
	}
	fams := []family{
		{"ctor-chain", alpha{scopes: []int{0, 1}, ctors: []*uFunc{pAe, pBe, pCbe}, invokes: []*uFunc{iA, iB, iC}}, []string{"pAe", "pBe", "pCbe"}, prefixChild},
		{"multi-result", alpha{scopes: []int{0, 1}, ctors: []*uFunc{pMe, pABe, pCe}, invokes: []*uFunc{iO, iC, iBn}}, []string{"pMe", "pABe", "pCe"}, prefixChild},
		{"decorators", alpha{scopes: []int{0, 1}, ctors: []*uFunc{pA, pB}, decos: []*uFunc{dAe, dABe}, invokes: []*uFunc{iA, iB}}, []string{"dAe", "dABe"}, prefixChild},
		{"group-decorator", alpha{scopes: []int{0, 1}, ctors: []*uFunc{fG1e, fG1}, decos: []*uFunc{dGe}, invokes: []*uFunc{iG, iGs}}, []string{"fG1e", "dGe"}, prefixChild},
		{"group-decorators-two-levels", alpha{scopes: []int{0, 1}, ctors: []*uFunc{fG1}, decos: []*uFunc{dGe, dG}, invokes: []*uFunc{iG}}, []string{"dGe"}, prefixChild},
		{"deco-over-failing-ctor", alpha{scopes: []int{0, 1}, ctors: []*uFunc{pAe, pBe}, decos: []*uFunc{dAe}, invokes: []*uFunc{iA, iB}}, []string{"pAe", "dAe"}, prefixChild},
		{"error-not-last", alpha{scopes: []int{0, 1}, ctors: []*uFunc{pAef, pBem}, decos: []*uFunc{dAef}, invokes: []*uFunc{iA, iB, iBn}}, []string{"pAef", "pBem", "dAef"}, prefixChild},
		{"decorator-dependency-fails", alpha{scopes: []int{0, 1}, ctors: []*uFunc{pA, pB, pC0e}, decos: []*uFunc{dAwC}, invokes: []*uFunc{iBo, iB, iA}}, []string{"pC0e"}, prefixChild},
		{"custom-error-type", alpha{scopes: []int{0, 1}, ctors: []*uFunc{pAce, fG1ce}, invokes: []*uFunc{iA, iG, iGs}}, []string{"pAce", "fG1ce"}, prefixChild},
		{"reentry-single", alpha{scopes: []int{0, 1}, ctors: []*uFunc{pA, pBe}, decos: []*uFunc{dABae}, invokes: []*uFunc{iA, iB}}, []string{"dABae", "pBe"}, prefixChild},
		{"reentry-group", alpha{scopes: []int{0, 1}, ctors: []*uFunc{pA, fBgAe}, decos: []*uFunc{dGBAe}, invokes: []*uFunc{iA, iGB}}, []string{"dGBAe", "fBgAe"}, prefixChild},
	}
	for _, f := range fams {
		for _, plan := range faultPlans(f.faulty, behs, true) {
			if q && len(plan) > 1 {
				// quick: two-deviation plans only over error/panic in two families
				skip := f.name != "ctor-chain" && f.name != "decorators"
				for _, p := range plan {
					if p[0] == u.BehErrVals {
						skip = true
					}
				}
				if skip {
					continue
				}
			}
			for _, rec := range []bool{false, true} {
				bb := b
				if f.name == "group-decorators-two-levels" {
					bb.Provides, bb.Decorates = 1, 2
				} else if len(f.a.decos) > 0 && f.name != "decorator-dependency-fails" {
					bb.Provides = 2
					if bb.Decorates < 2 && f.name == "decorators" {
						bb.Decorates = 2
					}
				}
				units = append(units, Unit{Sc: &Scenario{
					Name: fmt.Sprintf("%s/%s/recover=%v", f.name, plansText(plan), rec), Cfg: h.Config{Recover: rec}, Plans: plan,
					Prefix: f.prefix, Alphabet: f.a.ops(), Depth: d, Budget: bb, Allowed: onceEach, Monitors: mons,
				}})
			}
		}
	}
	return units
}

// classificationMonitor (C13).
func classificationMonitor(prefix string) func(c *Ctx) []Violation {
	return func(c *Ctx) []Violation {
		st := c.Step
		if st.V.Bad {
			return nil
		}
		var vs []Violation
		bad := func(rule, format string, a ...interface{}) {
			vs = append(vs, Violation{Rule: prefix + "/" + rule, Detail: fmt.Sprintf(format, a...)})
		}
		// first failure of a user function during this op
		var fail *u.Event
		for _, e := range c.Run.Events(st) {
			if e.Kind == u.EvExit && e.Outcome != u.BehOK {
				e := e
				fail = &e
				break
			}
		}
		v := st.V
		rec := c.Sc.Cfg.Recover
		switch {
		case fail != nil && fail.Panic != nil:
			c.Hit("panics_classified")
			if rec {
				if v.OK || !v.RootPanic || v.PanicVal != fail.Panic {
					bad("panic-not-a-PanicError", "%s panicked during %s (RecoverFromPanics on) but the result is %s", fail.Fn, st.Op, v.Class())
				} else if v.DigErr {
					bad("PanicError-is-a-dig-Error", "root cause of %s satisfies errors.As(dig.Error)", st.Op)
				}
			} else if !v.Escaped || v.PanicVal != fail.Panic {
				bad("panic-swallowed", "%s panicked during %s (RecoverFromPanics off) but the call returned %s instead of propagating the panic value", fail.Fn, st.Op, v.Class())
			}
		case fail != nil && fail.Err != nil:
			c.Hit("errors_classified")
			if fail.Fn == st.Inst {
				if !v.Identical || v.User != fail.Err {
					bad("invoked-function-error-not-returned-as-is", "%s returned %v but Invoke => %s", fail.Fn, fail.Err, v.Class())
				}
			} else if v.User != fail.Err || !v.IsUser {
				bad("constructor-error-not-recoverable", "%s returned %v during %s; RootCause/errors.Is do not yield it (%s)", fail.Fn, fail.Err, st.Op, v.Class())
			}
		case fail != nil && fail.Outcome == u.BehErrZero:
			// an error that is the zero value of a struct type is an error
			c.Hit("zero_valued_errors_classified")
			if fail.Fn == st.Inst {
				if v.OK || !v.ZeroIdentical {
					bad("invoked-function-error-not-returned-as-is", "%s returned the error %T{} but Invoke => %s", fail.Fn, u.ZeroErr{}, v.Class())
				}
			} else if v.OK || !v.ZeroErr || !v.ZeroRoot {
				bad("constructor-error-not-recoverable", "%s returned the error %T{} during %s; RootCause/errors.Is do not yield it (%s)", fail.Fn, u.ZeroErr{}, st.Op, v.Class())
			}
		case !v.OK:
			c.Hit("dig_failures_classified")
			if v.Escaped {
				bad("dig-panicked", "%s panicked: %s", st.Op, v.Msg)
			} else if !v.DigErr {
				bad("dig-failure-not-a-dig-Error", "%s failed (%s) without any user function failing, but RootCause is not a dig.Error", st.Op, v.Msg)
			}
		}
		// IsCycleDetected exactly for cycle rejections (three-valued)
		m := st.Model
		switch st.Op.Kind {
		case h.OpProvide:
			if st.Op.Fn == nil {
				break
			}
			extra := &model.Ctor{Inst: "new", F: st.Op.Fn, Home: st.Op.Scope, Orig: st.Op.Scope, P: st.Op.Fn.PLeaves(), R: st.Op.Fn.RLeaves()}
			if st.Op.Fn.Export {
				extra.Home = 0
			}
			if v.Cycle && m.GPerm(extra).Acyclic() {
				bad("cycle-reported-for-acyclic-graph", "%s => IsCycleDetected although the graph is acyclic under the most permissive reading", st.Op)
			}
			if !c.Sc.Cfg.Defer && !dupOrInvalid(m, extra) {
				for _, x := range m.Subtree(extra.Home) {
					if !m.GStrict(x, extra).Acyclic() {
						c.Hit("must_be_cycle")
						if !v.Cycle {
							bad("cycle-not-reported", "%s closes a cycle as seen from s%d but the result is %s", st.Op, x, v.Class())
						}
						break
					}
				}
			}
		case h.OpInvoke, h.OpDecorate:
			if v.Cycle && m.GPerm(nil).Acyclic() {
				bad("cycle-reported-for-acyclic-graph", "%s => IsCycleDetected although the graph is acyclic under the most permissive reading", st.Op)
			}
		}
		return vs
	}
}

// dupOrInvalid: would the model reject this constructor for another reason
// than a cycle (duplicate key)?
func dupOrInvalid(m *model.Model, c *model.Ctor) bool {
	seen := map[u.Key]bool{}
	for _, r := range c.R {
		for _, k := range r.Keys {
			if k.IsGroup() {
				continue
			}
			if seen[k] || len(m.ProvidersIn(c.Home, k)) > 0 {
				return true
			}
			seen[k] = true
		}
	}
	return len(c.R) == 0
}

func c13Units(tier string) []Unit {
	mons := []explore.Monitor{classificationMonitor("C13")}
	var units []Unit
	q := quick(tier)
	d, b := 5, explore.Budget{Provides: 3, Decorates: 1, Invokes: 2, Rejected: 1}
	if !q {
		d, b = 7, explore.Budget{Provides: 4, Decorates: 1, Invokes: 2, Rejected: 2}
	}
	behs := [][]u.Beh{{u.BehErr}, {u.BehPanic}}
	if !q {
		behs = append(behs, []u.Beh{u.BehErrVals}, []u.Beh{u.BehOK, u.BehPanic})
	}
	type family struct {
		name   string
		a      alpha
		faulty []string
		prefix []Op
	}
	fams := []family{
		{"positional-chain", alpha{scopes: []int{0, 1}, ctors: []*uFunc{pAe, pBe, pCbe}, export: true, invokes: []*uFunc{iAe, iBe, iCe}}, []string{"pAe", "pBe", "pCbe", "iAe", "iBe", "iCe"}, prefixChild},
		{"custom-error-types", alpha{scopes: []int{0, 1}, ctors: []*uFunc{pAce, pB}, invokes: []*uFunc{iAce, iBce}}, []string{"pAce", "iAce", "iBce"}, prefixChild},
		{"objects-groups", alpha{scopes: []int{0, 1}, ctors: []*uFunc{pAe, pMe, fG1e, pCe}, invokes: []*uFunc{iOe, iCe}}, []string{"pMe", "fG1e", "pCe", "iOe"}, prefixChild},
		{"decorators", alpha{scopes: []int{0, 1}, ctors: []*uFunc{pAe, pBe}, decos: []*uFunc{dAe, dABe}, invokes: []*uFunc{iAe, iBe}}, []string{"dAe", "dABe", "pAe"}, prefixChild},
		{"group-decorator", alpha{scopes: []int{0, 1}, ctors: []*uFunc{fG1e, pCe}, decos: []*uFunc{dGe}, invokes: []*uFunc{iCe, iOe}}, []string{"dGe", "fG1e"}, prefixChild},
		{"panic-only-functions", alpha{scopes: []int{0, 1}, ctors: []*uFunc{pA, pBp}, decos: []*uFunc{dAp}, invokes: []*uFunc{iA, iB}}, []string{"pBp", "dAp", "iA"}, prefixChild},
		{"decorator-dependency-fails", alpha{scopes: []int{0, 1}, ctors: []*uFunc{pA, pB, pC0e}, decos: []*uFunc{dAwC}, invokes: []*uFunc{iBo, iBe, iAe}}, []string{"pC0e"}, prefixChild},
		{"with-callbacks", alpha{scopes: []int{0, 1}, ctors: []*uFunc{pA, pBe.With("pBecb", u.WithCallback)}, decos: []*uFunc{dAe.With("dAecb", u.WithCallback)}, invokes: []*uFunc{iAe, iBe}}, []string{"pBecb", "dAecb"}, prefixChild},
		{"error-not-last", alpha{scopes: []int{0, 1}, ctors: []*uFunc{pAef, pBem}, decos: []*uFunc{dAef}, invokes: []*uFunc{iAe, iBe, iBn}}, []string{"pAef", "pBem", "dAef"}, prefixChild},
		{"reentry-single", alpha{scopes: []int{0, 1}, ctors: []*uFunc{pA, pBe}, decos: []*uFunc{dABae}, invokes: []*uFunc{iAe, iBe}}, []string{"dABae", "pBe"}, prefixChild},
		{"reentry-group", alpha{scopes: []int{0, 1}, ctors: []*uFunc{pA, fBgAe}, decos: []*uFunc{dGBAe}, invokes: []*uFunc{iAe, iGB}}, []string{"dGBAe", "fBgAe"}, prefixChild},
	}
	for _, f := range fams {
		fb := behs
		if f.name == "positional-chain" || f.name == "decorators" || !q {
			// a panic whose value is itself an error wrapping a dig error
			fb = append(append([][]u.Beh{}, behs...), []u.Beh{u.BehPanicDigErr}, []u.Beh{u.BehPanicWrapsPanicErr})
		}
		if f.name == "positional-chain" || f.name == "decorators" || f.name == "custom-error-types" || !q {
			// an error value that is the zero value of its (struct) type
			fb = append(append([][]u.Beh{}, fb...), []u.Beh{u.BehErrZero})
		}
		for _, plan := range faultPlans(f.faulty, fb, false) {
			for _, rec := range []bool{false, true} {
				units = append(units, Unit{Sc: &Scenario{
					Name: fmt.Sprintf("%s/%s/recover=%v", f.name, plansText(plan), rec), Cfg: h.Config{Recover: rec}, Plans: plan,
					Prefix: f.prefix, Alphabet: f.a.ops(), Depth: d, Budget: b, Allowed: onceEach, Monitors: mons,
				}})
			}
		}
	}
	// dig-originated failures: missing, duplicate, cycle at Provide, cycle at Invoke under Defer
	for _, def := range []bool{false, true} {
		for _, rec := range []bool{false, true} {
			units = append(units, Unit{Sc: &Scenario{
				Name: fmt.Sprintf("dig-failures/ring/defer=%v/recover=%v", def, rec), Cfg: h.Config{Defer: def, Recover: rec},
				Prefix: prefixChild, Alphabet: alpha{scopes: []int{0, 1}, ctors: []*uFunc{rAB, rBC, rCA, rAoB, rAgB, rBgC, pA}, export: true, invokes: []*uFunc{iA, iB, iC}}.ops(),
				Depth: d + 1, Budget: explore.Budget{Provides: 4, Invokes: 1, Rejected: 1}, Monitors: mons,
			}})
		}
	}
	return units
}

var (
	iAce = u.F("iAce", "A", "", u.CustomErr) // invoked functions whose last result implements error without being error
	iBce = u.F("iBce", "B", "", u.CustomErr)
)
