package checks

import (
	"fmt"
	"sort"
	"strings"

	"verif/dot"
	"verif/explore"
	h "verif/harness"
	"verif/model"
	u "verif/universe"
)

// C19 — Visualize is a faithful, well-formed picture of the container
// (style I over configurations; DOT parsed structurally and compared with a
// graph computed from the model and, for VisualizeError, from the observed
// failure path).

type visEdge struct {
	to     string
	dashed bool
}

type visCluster struct {
	name    string
	color   string
	results []string
	edges   []visEdge
}

type visGroup struct {
	id      string
	color   string
	members []string
}

type visGraph struct {
	clusters map[string]*visCluster
	groups   map[string]*visGroup
	colored  map[string]string // top-level coloured nodes
}

func resultID(k u.Key, idx int) string {
	t := typeString(k.T)
	switch {
	case k.Name != "":
		return fmt.Sprintf("%s[name=%s]", t, k.Name)
	case k.Group != "":
		return fmt.Sprintf("%s[group=%s]%d", t, k.Group, idx)
	}
	return t
}

func paramID(k u.Key) string {
	t := typeString(k.T)
	if k.Name != "" {
		return fmt.Sprintf("%s[name=%s]", t, k.Name)
	}
	return t
}

func groupID(k u.Key) string { return fmt.Sprintf("[type=%s group=%s]", typeString(k.T), k.Group) }

// ctorsInGraphOrder: dig walks the scope tree depth-first, each scope's
// accepted constructors in registration order.
func ctorsInGraphOrder(m *model.Model) []*model.Ctor {
	var out []*model.Ctor
	var walk func(s int)
	walk = func(s int) {
		for _, c := range m.Ctors {
			if c.Home == s {
				out = append(out, c)
			}
		}
		for ch := range m.Parent {
			if ch != 0 && m.Parent[ch] == s {
				walk(ch)
			}
		}
	}
	walk(0)
	return out
}

// staticGraph: what Visualize must show for the accepted registrations.
func staticGraph(m *model.Model) (*visGraph, map[*model.Ctor][]string) {
	g := &visGraph{clusters: map[string]*visCluster{}, groups: map[string]*visGroup{}, colored: map[string]string{}}
	ids := map[*model.Ctor][]string{} // per ctor: result ids per (leaf,key) in order
	grp := func(k u.Key) *visGroup {
		id := groupID(k)
		if g.groups[id] == nil {
			g.groups[id] = &visGroup{id: id}
		}
		return g.groups[id]
	}
	for _, c := range ctorsInGraphOrder(m) {
		cl := &visCluster{name: c.F.Decl}
		// dig registers group parameters (creating the group node) before results
		for _, l := range c.P {
			if l.Key.IsGroup() {
				grp(l.Key)
				cl.edges = append(cl.edges, visEdge{to: groupID(l.Key)})
			}
		}
		for _, r := range c.R {
			for _, k := range r.Keys {
				id := resultID(k, 0)
				if k.IsGroup() {
					gr := grp(k)
					id = resultID(k, len(gr.members))
					gr.members = append(gr.members, id)
				}
				cl.results = append(cl.results, id)
				ids[c] = append(ids[c], id)
			}
		}
		for _, l := range c.P {
			if !l.Key.IsGroup() {
				cl.edges = append(cl.edges, visEdge{to: paramID(l.Key), dashed: l.Optional})
			}
		}
		g.clusters[cl.name] = cl
	}
	return g, ids
}

// ---- failure path simulation (dig's build order: parameters in declaration
// order, dependencies before consumers, first failure stops).

type vis struct {
	kind    string // single | group | missing
	key     u.Key
	ctor    *model.Ctor
	missing []u.Key
}

type failSim struct {
	m      *model.Model
	done   map[string]bool
	failed map[string]bool
}

func (s *failSim) missingOf(x int, ls []u.PLeaf) []u.Key {
	var out []u.Key
	for _, l := range ls {
		if !l.Key.IsGroup() && !l.Optional && len(s.m.Prov(x, l.Key)) == 0 {
			out = append(out, l.Key)
		}
	}
	return out
}

func hasMissing(chain []vis) bool {
	for _, v := range chain {
		if v.kind == "missing" {
			return true
		}
	}
	return false
}

func (s *failSim) leaves(x int, ls []u.PLeaf) ([]vis, bool) {
	for _, l := range ls {
		if !l.Key.IsGroup() {
			ps := s.m.Prov(x, l.Key)
			if len(ps) == 0 {
				continue // optional (required ones were caught by the shallow check)
			}
			c := ps[0]
			if s.done[c.Inst] {
				continue
			}
			if sub, bad := s.call(c); bad {
				if l.Optional && hasMissing(sub) && (len(sub) == 0 || sub[0].kind == "missing") {
					continue
				}
				return append([]vis{{kind: "single", key: l.Key, ctor: c}}, sub...), true
			}
			continue
		}
		if l.Soft {
			continue
		}
		for _, sc := range s.m.Vis(x) {
			for _, c := range s.m.ProvidersIn(sc, l.Key) {
				if s.done[c.Inst] {
					continue
				}
				if sub, bad := s.call(c); bad {
					return append([]vis{{kind: "group", key: l.Key, ctor: c}}, sub...), true
				}
			}
		}
	}
	return nil, false
}

func (s *failSim) call(c *model.Ctor) ([]vis, bool) {
	if miss := s.missingOf(c.Orig, c.P); len(miss) > 0 {
		return []vis{{kind: "missing", missing: miss}}, true
	}
	if sub, bad := s.leaves(c.Orig, c.P); bad {
		return sub, true
	}
	if s.failed[c.Inst] {
		return nil, true
	}
	s.done[c.Inst] = true
	return nil, false
}

// failureGraph: what Visualize(VisualizeError(err)) must show, given the
// chain of visualizable errors (outermost first).
func failureGraph(m *model.Model, chain []vis) *visGraph {
	g, ids := staticGraph(m)
	failedCtor := map[*model.Ctor]string{}
	failedGroup := map[string]string{}
	rootSeen := false
	color := func() string {
		if !rootSeen {
			return "red"
		}
		return "orange"
	}
	for i := len(chain) - 1; i >= 0; i-- {
		v := chain[i]
		col := color()
		switch v.kind {
		case "missing":
			for _, k := range v.missing {
				g.colored[resultID(k, 0)] = col
			}
		case "single":
			g.colored[resultID(v.key, 0)] = col
			failedCtor[v.ctor] = col
		case "group":
			failedCtor[v.ctor] = col
			failedGroup[groupID(v.key)] = col
			n := 0
			for _, r := range v.ctor.R {
				for _, k := range r.Keys {
					if k == v.key {
						g.colored[ids[v.ctor][n]] = col
					}
					n++
				}
			}
		}
		rootSeen = true
	}
	// prune successes
	prunedKeys := map[string]bool{} // param ids provided by pruned constructors
	prunedMembers := map[string]bool{}
	for _, c := range m.Ctors {
		if _, ok := failedCtor[c]; ok {
			g.clusters[c.F.Decl].color = failedCtor[c]
			continue
		}
		n := 0
		for _, r := range c.R {
			for _, k := range r.Keys {
				if k.IsGroup() {
					prunedMembers[ids[c][n]] = true
				} else {
					prunedKeys[paramID(k)] = true
				}
				n++
			}
		}
		delete(g.clusters, c.F.Decl)
	}
	for id, gr := range g.groups {
		if col, ok := failedGroup[id]; ok {
			gr.color = col
			var ms []string
			for _, mm := range gr.members {
				if !prunedMembers[mm] {
					ms = append(ms, mm)
				}
			}
			gr.members = ms
		} else {
			delete(g.groups, id)
		}
	}
	for _, cl := range g.clusters {
		var es []visEdge
		for _, e := range cl.edges {
			if strings.HasPrefix(e.to, "[type=") {
				if _, ok := g.groups[e.to]; ok {
					es = append(es, e)
				}
				continue
			}
			if !prunedKeys[e.to] {
				es = append(es, e)
			}
		}
		cl.edges = es
	}
	return g
}

func sortedStrings(s []string) []string {
	out := append([]string{}, s...)
	sort.Strings(out)
	return out
}

func edgeStrings(es []visEdge) []string {
	var out []string
	for _, e := range es {
		s := e.to
		if e.dashed {
			s += " (dashed)"
		}
		out = append(out, s)
	}
	sort.Strings(out)
	return out
}

// compareDOT parses the DOT text and compares it with the expected graph.
func compareDOT(text string, want *visGraph) []string {
	var errs []string
	g, err := dot.Parse(text)
	if err != nil {
		return []string{"DOT does not parse: " + err.Error()}
	}
	// clusters
	gotClusters := map[string]*visCluster{}
	ctorNode := map[string]string{} // constructor_N -> name
	for _, c := range g.Clusters {
		cl := &visCluster{color: c.Attrs["color"]}
		for _, n := range c.Nodes {
			if strings.HasPrefix(n.ID, "constructor_") {
				cl.name = n.Attrs["label"]
				ctorNode[n.ID] = cl.name
				continue
			}
			cl.results = append(cl.results, n.ID)
		}
		if _, dup := gotClusters[cl.name]; dup {
			errs = append(errs, "two clusters for constructor "+cl.name)
		}
		gotClusters[cl.name] = cl
	}
	gotGroups := map[string]*visGroup{}
	colored := map[string]string{}
	for _, n := range g.Nodes {
		if n.Attrs["shape"] == "diamond" {
			gotGroups[n.ID] = &visGroup{id: n.ID, color: n.Attrs["color"]}
			continue
		}
		if c, ok := n.Attrs["color"]; ok {
			colored[n.ID] = c
		}
	}
	for _, e := range g.Edges {
		if name, ok := ctorNode[e.From]; ok {
			gotClusters[name].edges = append(gotClusters[name].edges, visEdge{to: e.To, dashed: e.Attrs["style"] == "dashed"})
			continue
		}
		if gr, ok := gotGroups[e.From]; ok {
			gr.members = append(gr.members, e.To)
			continue
		}
		errs = append(errs, fmt.Sprintf("edge from unknown node %q", e.From))
	}
	for name, w := range want.clusters {
		got, ok := gotClusters[name]
		if !ok {
			errs = append(errs, "no cluster for accepted constructor "+name)
			continue
		}
		if a, b := sortedStrings(got.results), sortedStrings(w.results); strings.Join(a, "|") != strings.Join(b, "|") {
			errs = append(errs, fmt.Sprintf("cluster %s holds result nodes %q, want %q", name, a, b))
		}
		if a, b := edgeStrings(got.edges), edgeStrings(w.edges); strings.Join(a, "|") != strings.Join(b, "|") {
			errs = append(errs, fmt.Sprintf("constructor %s has dependency edges %q, want %q", name, a, b))
		}
		if got.color != w.color {
			errs = append(errs, fmt.Sprintf("cluster %s has color %q, want %q", name, got.color, w.color))
		}
	}
	for name := range gotClusters {
		if _, ok := want.clusters[name]; !ok {
			errs = append(errs, "cluster for "+name+", which is not an accepted (or, with an error, a failed) constructor")
		}
	}
	for id, w := range want.groups {
		got, ok := gotGroups[id]
		if !ok {
			errs = append(errs, "no node for value group "+id)
			continue
		}
		if a, b := sortedStrings(got.members), sortedStrings(w.members); strings.Join(a, "|") != strings.Join(b, "|") {
			errs = append(errs, fmt.Sprintf("group %s is linked to %q, want %q", id, a, b))
		}
		if got.color != w.color {
			errs = append(errs, fmt.Sprintf("group %s has color %q, want %q", id, got.color, w.color))
		}
	}
	for id := range gotGroups {
		if _, ok := want.groups[id]; !ok {
			errs = append(errs, "unexpected group node "+id)
		}
	}
	for id, c := range want.colored {
		if colored[id] != c {
			errs = append(errs, fmt.Sprintf("node %s is marked %q, want %q", id, colored[id], c))
		}
	}
	for id, c := range colored {
		if _, ok := want.colored[id]; !ok {
			errs = append(errs, fmt.Sprintf("node %s is marked %s but is neither root cause nor transitive failure", id, c))
		}
	}
	return errs
}

func visualizeMonitor(c *Ctx) []Violation {
	st := c.Step
	var vs []Violation
	// CanVisualizeError exactly for missing types and constructor failures
	if st.Op.Kind == h.OpInvoke && !st.V.OK && !st.V.Escaped && st.Op.Fn != nil {
		ownFailure := false
		for _, e := range c.Run.Events(st) {
			if e.Kind == u.EvExit && e.Outcome != u.BehOK && e.Fn == st.Inst {
				ownFailure = true
			}
		}
		want := !ownFailure && !st.V.Cycle
		c.Hit("can_visualize_checked")
		if st.V.CanVis != want {
			vs = append(vs, Violation{Rule: "C19/can-visualize-error", Detail: fmt.Sprintf("%s => %s: CanVisualizeError=%v, want %v", st.Op, st.V.Class(), st.V.CanVis, want)})
		}
	}
	if c.Run.ObsFault != "" {
		vs = append(vs, Violation{Rule: "C19/visualize-failed", Detail: "an observation between operations panicked: " + c.Run.ObsFault})
	}
	if st.Op.Kind != h.OpVisualize {
		return vs
	}
	if st.V.Escaped || !st.V.OK {
		return append(vs, Violation{Rule: "C19/visualize-failed", Detail: st.V.Msg})
	}
	m := c.Run.M
	want, _ := staticGraph(m)
	what := "plain"
	if k := c.Run.VisErrStep(st.Op); k >= 0 {
		fs := c.Run.Steps[k]
		if fs.V.CanVis {
			li := indexLog(c.Run.RT.Log)
			sim := &failSim{m: fs.Model, done: map[string]bool{}, failed: map[string]bool{}}
			for _, ct := range fs.Model.Ctors {
				if li.doneBefore(fs.LogFrom)(ct.Inst) {
					sim.done[ct.Inst] = true
				}
			}
			for _, e := range c.Run.Events(fs) {
				if e.Kind == u.EvExit && e.Outcome != u.BehOK {
					sim.failed[e.Fn] = true
				}
			}
			var chain []vis
			if miss := sim.missingOf(fs.Op.Scope, fs.Op.Fn.PLeaves()); len(miss) > 0 {
				chain = []vis{{kind: "missing", missing: miss}}
			} else {
				chain, _ = sim.leaves(fs.Op.Scope, fs.Op.Fn.PLeaves())
			}
			// map the failing step's model constructors onto the current model (same instances)
			for i := range chain {
				if chain[i].ctor != nil {
					chain[i].ctor = m.CtorByInst(chain[i].ctor.Inst)
				}
			}
			want = failureGraph(m, chain)
			what = fmt.Sprintf("with the error of step %d (%d visualizable errors on the failure path)", k, len(chain))
			c.Hit("failure_graphs_checked")
		}
	} else {
		c.Hit("plain_graphs_checked")
	}
	if errs := compareDOT(st.Dot, want); len(errs) > 0 {
		vs = append(vs, Violation{Rule: "C19/dot-differs-from-container", Detail: fmt.Sprintf("Visualize %s: %s", what, strings.Join(errs, "; "))})
	}
	return vs
}

func init() {
	explore.Register(&explore.Check{
		ID:    "C19",
		Rule:  "All histories placing <=3-4 declared-pool constructors (plain, named, two results, group members, flatten, As, optional and named-optional parameters, group / soft-group consumers, nested mixes) over <=3 scopes with Export, including rejected duplicates and cycles, interleaved with Invokes that fail through a missing type or a single constructor fault at depth 1-3 (also through groups), each followed by Visualize and Visualize(VisualizeError(last failure)); the DOT text is parsed and compared structurally.",
		Units: c19Units,
		Assumptions: []string{
			"'syntactically valid DOT' is decided by the harness's parser for the DOT subset dig emits (Graphviz is not installed)",
			"failures inside decorators and non-distinct function ids are outside the property (quantifier)",
		},
	})
}

func c19Units(tier string) []Unit {
	q := quick(tier)
	var units []Unit
	visPlain := Op{Kind: h.OpVisualize}
	visErr := Op{Kind: h.OpVisualize, VisErr: -1}
	d, b := 5, explore.Budget{Provides: 3, Invokes: 1, Others: 1, Rejected: 1}
	if !q {
		d, b = 7, explore.Budget{Provides: 4, Invokes: 2, Others: 1, Rejected: 1}
	}
	observe := false
	add := func(name string, plans map[string][]u.Beh, prefix []Op, a alpha, rec bool) {
		ops := append(a.ops(), visPlain, visErr)
		units = append(units, Unit{Sc: &Scenario{Name: name, Cfg: h.Config{Recover: rec, Observe: observe}, Plans: plans, Prefix: prefix, Alphabet: ops, Depth: d, Budget: b,
			Allowed: declOnce, Monitors: []explore.Monitor{visualizeMonitor}}})
	}
	D := u.D
	shapes := alpha{scopes: []int{0, 1}, ctors: []*uFunc{D("DA"), D("DA2"), D("DBn"), D("DAB"), D("DG1"), D("DG2"), D("DFl"), D("DM"), D("DAsI"), D("DAsII")}, export: true,
		invokes: []*uFunc{iA, iG}}
	add("result-shapes", nil, prefixChild, shapes, false)
	params := alpha{scopes: []int{0, 1}, ctors: []*uFunc{D("DA"), D("DB"), D("DC"), D("DCo"), D("DCon"), D("DCnb"), D("DCg"), D("DCs"), D("DDm"), D("DG1")}, export: !q,
		invokes: []*uFunc{iC, iD}}
	add("param-shapes", nil, prefixChild, params, false)
	tree := alpha{scopes: []int{0, 1, 2}, ctors: []*uFunc{D("DA"), D("DB"), D("DG1"), D("DCg"), D("DD")}, export: true, invokes: []*uFunc{iD, iB}}
	add("three-scopes-chain", nil, prefixChain, tree, false)
	if !q {
		add("three-scopes-fork", nil, prefixFork, tree, false)
	}
	// registrations rejected for a cycle in the target scope, only in a
	// descendant, or through Export: no cluster for them, none lost
	rings := alpha{scopes: []int{0, 1}, ctors: []*uFunc{D("DB"), D("DrAB"), D("DrBC"), D("DrCA"), D("DB0")}, export: true, invokes: []*uFunc{iA}}
	add("rejected-by-cycle", nil, prefixChild, rings, false)
	// failures: every single constructor fault at depth 1-3, also through groups; missing types arise by not providing
	chain := alpha{scopes: []int{0, 1}, ctors: []*uFunc{D("DAe"), D("DBe"), D("DCe"), D("DD"), D("DBn")}, invokes: []*uFunc{iA, iB, iC, iD, DiCeSpec}}
	groups := alpha{scopes: []int{0, 1}, ctors: []*uFunc{D("DG1e"), D("DG2"), D("DCge"), D("DD"), D("DM"), D("DG22"), D("DFl")}, invokes: []*uFunc{iG, iC, iD}}
	for _, beh := range []u.Beh{u.BehErr, u.BehPanic} {
		for _, f := range []string{"DAe", "DBe", "DCe", "DiCe"} {
			add(fmt.Sprintf("fault-chain/%s=%v", f, beh), map[string][]u.Beh{f: {beh}}, prefixChild, chain, true)
		}
		for _, f := range []string{"DG1e", "DCge"} {
			add(fmt.Sprintf("fault-groups/%s=%v", f, beh), map[string][]u.Beh{f: {beh}}, prefixChild, groups, true)
		}
	}
	add("missing-types/chain", nil, prefixChild, chain, false)
	add("missing-types/groups", nil, prefixChild, groups, false)
	// group members with dependencies of their own (missing, or failing)
	deepGroups := alpha{scopes: []int{0, 1}, ctors: []*uFunc{D("DGb"), D("DG2"), D("DCg"), D("DBe"), D("DAe")}, invokes: []*uFunc{iG, iC}}
	add("missing-types/group-member-deps", nil, prefixChild, deepGroups, false)
	add("fault-groups/member-dep-fails", map[string][]u.Beh{"DBe": {u.BehErr}}, prefixChild, deepGroups, true)
	// the same histories with a Visualize (plain and with the latest error)
	// and a String after every single operation: a picture never depends on
	// pictures taken earlier
	observe = true
	add("observed-every-step/three-scopes-chain", nil, prefixChain, tree, false)
	add("observed-every-step/result-shapes", nil, prefixChild, shapes, false)
	add("observed-every-step/fault-chain/DBe=err", map[string][]u.Beh{"DBe": {u.BehErr}}, prefixChild, chain, true)
	if !q {
		add("observed-every-step/three-scopes-fork", nil, prefixFork, tree, false)
		add("observed-every-step/param-shapes", nil, prefixChild, params, false)
		add("observed-every-step/fault-groups/DCge=err", map[string][]u.Beh{"DCge": {u.BehErr}}, prefixChild, groups, true)
		add("observed-every-step/rejected-by-cycle", nil, prefixChild, rings, false)
	}
	return units
}

var DiCeSpec = u.D("DiCe")
