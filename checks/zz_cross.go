package checks

import "verif/explore"

// Cross coverage (thorough tier): the oracles of the history-style checks are
// general statements about any history, so in the thorough tier each of them
// is also evaluated over the quick-tier alphabets of all the other history
// checks (re-entry shapes, fault plans, key grammars, callbacks, ring pieces,
// …), not only over the alphabets written with that property in mind. The file
// name sorts last so that every check is registered before this runs.
func init() {
	sources := []string{"C01", "C02", "C03", "C04", "C07", "C08", "C09", "C10", "C11", "C12", "C13", "C20"}
	set := func(id string, mons ...explore.Monitor) {
		c := explore.Lookup(id)
		c.CrossMonitors = mons
		c.CrossFrom = sources
	}
	set("C01", resolutionMonitor("C01"))
	set("C02", singletonMonitor("C02"), stabilityMonitor("C02"))
	set("C03", silentOpsMonitor("C03"), lazinessMonitor("C03"))
	set("C04", availabilityMonitor("C04"), faultSurfacesMonitor("C04"))
	set("C07", failedValueMonitor("C07"), faultSurfacesMonitor("C07"), retryMonitor("C07"))
	set("C08", resolutionMonitor("C08"), availabilityMonitor("C08"), provideAcceptMonitor("C08"))
	set("C10", resolutionMonitor("C10"), singletonMonitor("C10"))
	set("C11", lazinessMonitor("C11"), softLowerBoundMonitor("C11"))
	set("C12", resolutionMonitor("C12"), decorateVerdictMonitor("C12"), singletonMonitor("C12"))
	set("C13", classificationMonitor("C13"))
}
