package checks

import (
	"fmt"
	"reflect"
	"strings"

	"go.uber.org/dig"

	"verif/explore"
	h "verif/harness"
	u "verif/universe"
)

// C18 — introspection reports exactly what was declared (style I over a
// signature grammar, plus late-rejection contexts and ID injectivity).

// expected strings, written against the AST (not against reflect types of the
// built function) with an independent formatter.
func typeString(code string) string {
	if strings.HasPrefix(code, "[") {
		return "[]" + typeString(code[1:len(code)-1])
	}
	switch code {
	case "A":
		return "*universe.TA"
	case "B":
		return "*universe.TB"
	case "C":
		return "*universe.TC"
	case "D":
		return "*universe.TD"
	case "IA":
		return "universe.IA"
	case "IAB":
		return "universe.IAB"
	case "IC":
		return "universe.IC"
	case "Pad2":
		return "universe.Pad2"
	}
	return code
}

func fmtIO(t string, optional bool, name, group string) string {
	var toks []string
	if optional {
		toks = append(toks, "optional")
	}
	if name != "" {
		toks = append(toks, fmt.Sprintf("name = %q", name))
	}
	if group != "" {
		toks = append(toks, fmt.Sprintf("group = %q", group))
	}
	if len(toks) == 0 {
		return t
	}
	return t + "[" + strings.Join(toks, ", ") + "]"
}

func expectedInputs(f *u.Func) []string {
	var out []string
	for _, l := range f.PLeaves() {
		t := typeString(l.Key.T)
		if l.Key.IsGroup() {
			t = "[]" + t
		}
		out = append(out, fmtIO(t, l.Optional, l.Key.Name, l.Key.Group))
	}
	return out
}

func expectedOutputs(f *u.Func, decorator bool) []string {
	var out []string
	if decorator {
		// Name / Group / As are Provide options: Decorate has no such options
		g := *f
		g.OptName, g.OptGroup, g.As, g.FlatN = "", "", nil, 0
		f = &g
	}
	for _, r := range f.RLeaves() {
		for _, k := range r.Keys {
			out = append(out, fmtIO(typeString(k.T), false, k.Name, k.Group))
		}
	}
	return out
}

func inputStrings(in []*dig.Input) []string {
	var out []string
	for _, i := range in {
		if i == nil {
			out = append(out, "<nil>")
		} else {
			out = append(out, i.String())
		}
	}
	return out
}

func outputStrings(o []*dig.Output) []string {
	var out []string
	for _, i := range o {
		if i == nil {
			out = append(out, "<nil>")
		} else {
			out = append(out, i.String())
		}
	}
	return out
}

func sameStrings(a, b []string) bool {
	if len(a) != len(b) {
		return false
	}
	for i := range a {
		if a[i] != b[i] {
			return false
		}
	}
	return true
}

// infoCheck judges the Info struct of one step.
func infoCheck(st *h.Step, hit func(string)) []Violation {
	var vs []Violation
	f := st.Op.Fn
	if f == nil || !f.Info {
		return nil
	}
	bad := func(rule, format string, a ...interface{}) {
		vs = append(vs, Violation{Rule: "C18/" + rule, Detail: fmt.Sprintf(format, a...)})
	}
	switch st.Op.Kind {
	case h.OpProvide:
		if !st.V.OK {
			hit("rejected_provide_info_checked")
			if !reflect.DeepEqual(st.PInfo, h.PoisonedProvideInfo()) {
				bad("rejected-provide-touched-info", "%s was rejected (%s) but its ProvideInfo was modified: ID=%d inputs=%v outputs=%v", st.Op, st.V.Msg, st.PInfo.ID, inputStrings(st.PInfo.Inputs), outputStrings(st.PInfo.Outputs))
			}
			return vs
		}
		hit("provide_info_checked")
		if got, want := inputStrings(st.PInfo.Inputs), expectedInputs(f); !sameStrings(got, want) {
			bad("provide-inputs", "%s: ProvideInfo.Inputs = %q, declared %q", st.Op, got, want)
		}
		if got, want := outputStrings(st.PInfo.Outputs), expectedOutputs(f, false); !sameStrings(got, want) {
			bad("provide-outputs", "%s: ProvideInfo.Outputs = %q, declared %q", st.Op, got, want)
		}
	case h.OpDecorate:
		if !st.V.OK {
			hit("rejected_decorate_info_checked")
			if !reflect.DeepEqual(st.DInfo, h.PoisonedDecorateInfo()) {
				bad("rejected-decorate-touched-info", "%s was rejected (%s) but its DecorateInfo was modified: ID=%d inputs=%v outputs=%v", st.Op, st.V.Msg, st.DInfo.ID, inputStrings(st.DInfo.Inputs), outputStrings(st.DInfo.Outputs))
			}
			return vs
		}
		hit("decorate_info_checked")
		if got, want := inputStrings(st.DInfo.Inputs), expectedInputs(f); !sameStrings(got, want) {
			bad("decorate-inputs", "%s: DecorateInfo.Inputs = %q, declared %q", st.Op, got, want)
		}
		if got, want := outputStrings(st.DInfo.Outputs), expectedOutputs(f, true); !sameStrings(got, want) {
			bad("decorate-outputs", "%s: DecorateInfo.Outputs = %q, declared %q", st.Op, got, want)
		}
	case h.OpInvoke:
		// Invoke fills the info once the arguments were built
		if st.IInfo == nil || !st.V.OK {
			return vs
		}
		hit("invoke_info_checked")
		if got, want := inputStrings(st.IInfo.Inputs), expectedInputs(f); !sameStrings(got, want) {
			bad("invoke-inputs", "%s: InvokeInfo.Inputs = %q, declared %q", st.Op, got, want)
		}
	}
	return vs
}

func infoMonitor(c *Ctx) []Violation { return infoCheck(c.Step, c.Hit) }

// ---- the signature grammar

func c18ParamLists(quick bool) [][]u.Param {
	p := func(s string) u.Param { return u.F("x", s, "").Params[0] }
	atoms := []u.Param{p("{A}").Fields[0], p("{B@n}").Fields[0], p("{A?}").Fields[0], p("{B@n?}").Fields[0], p("{A*g}").Fields[0], p("{B*h~}").Fields[0]}
	obj := func(fs ...u.Param) u.Param { return u.Param{Kind: u.PObject, Fields: fs} }
	// fields: atoms, and nested objects of one or two atoms
	fields := append([]u.Param{}, atoms...)
	for _, a := range atoms {
		fields = append(fields, obj(a))
	}
	if !quick {
		for _, a := range atoms {
			for _, b := range atoms {
				fields = append(fields, obj(a, b))
			}
		}
		for _, a := range atoms[:3] {
			fields = append(fields, obj(obj(a))) // depth 3
		}
	}
	var objects []u.Param
	for _, a := range fields {
		objects = append(objects, obj(a))
	}
	for _, a := range fields {
		for _, b := range fields {
			objects = append(objects, obj(a, b))
		}
	}
	if !quick {
		for _, a := range atoms {
			for _, b := range atoms {
				for _, c := range fields {
					objects = append(objects, obj(a, b, c))
				}
			}
		}
	} else {
		for _, a := range atoms {
			for _, b := range atoms[:3] {
				for _, c := range atoms[3:] {
					objects = append(objects, obj(a, b, c))
				}
			}
		}
	}
	items := []u.Param{p("A"), p("B"), p("C")}
	items = append(items, objects...)
	lists := [][]u.Param{nil}
	for _, a := range items {
		lists = append(lists, []u.Param{a})
	}
	// two positional items: singles x everything, objects x singles, and small objects x small objects
	small := items[:3+len(fields)]
	for _, a := range items[:3] {
		for _, b := range items {
			lists = append(lists, []u.Param{a, b})
		}
	}
	for _, a := range items[3:] {
		for _, b := range items[:3] {
			lists = append(lists, []u.Param{a, b})
		}
	}
	for _, a := range small[3:] {
		for _, b := range small[3:] {
			lists = append(lists, []u.Param{a, b})
		}
	}
	// three positional items over the small set
	for _, a := range small[:5] {
		for _, b := range small[:5] {
			for _, c := range small {
				lists = append(lists, []u.Param{a, b, c})
			}
		}
	}
	return lists
}

type c18Res struct {
	results []u.Result
	opts    []func(*u.Func)
}

func c18ResultLists(quick bool) []c18Res {
	r := func(s string) []u.Result { return u.F("x", "", s).Results }
	var out []c18Res
	add := func(s string, opts ...func(*u.Func)) { out = append(out, c18Res{r(s), opts}) }
	// positional results with options
	for _, s := range []string{"A", "B", "A,B", "A,B,C", "IAB"} {
		add(s)
		add(s, u.Name("n"))
		add(s, u.Group("g"))
	}
	add("[A]", u.GroupFlat("g", 1))
	add("[A],[B]", u.GroupFlat("g", 1))
	add("A", u.As("IA"))
	add("A", u.As("IA", "IAB"))
	add("A", u.As("IAB", "IA"))
	add("A,B", u.As("IA"))
	add("A", u.As("IA"), u.Name("n"))
	add("A", u.As("IA", "IAB"), u.Group("g"))
	add("IAB", u.As("IAB"))
	add("IAB", u.As("IAB", "IA"))
	add("IAB", u.As("IA", "IAB"))
	// result objects
	fields := []string{"A", "B@n", "A+g", "[A]+g!1", "[B]!1+h", "C"}
	var fs []string
	fs = append(fs, fields...)
	for _, a := range fields {
		fs = append(fs, "{"+a+"}")
	}
	if !quick {
		for _, a := range fields {
			for _, b := range fields {
				fs = append(fs, "{"+a+";"+b+"}")
			}
			fs = append(fs, "{{"+a+"}}")
		}
	}
	for _, a := range fs {
		add("{" + a + "}")
		for _, b := range fs {
			add("{" + a + ";" + b + "}")
			add("{" + a + "},{" + b + "}")
		}
		add("D,{" + a + "}")
		add("{" + a + "},D")
	}
	for _, a := range fields {
		for _, b := range fields {
			for _, c := range fs {
				add("{" + a + ";" + b + ";" + c + "}")
			}
		}
	}
	return out
}

type c18Sig struct{ f *u.Func }

func c18Signatures(tier string) []*u.Func {
	q := quick(tier)
	var out []*u.Func
	n := 0
	mk := func(params []u.Param, res c18Res, variadic, err bool) {
		n++
		f := &u.Func{ID: fmt.Sprintf("sig%d", n), Params: params, Results: res.results, Variadic: variadic, Err: err, Info: true}
		for _, o := range res.opts {
			o(f)
		}
		out = append(out, f)
	}
	plists, rlists := c18ParamLists(q), c18ResultLists(q)
	resA := c18Res{results: u.F("x", "", "A").Results}
	for i, pl := range plists {
		mk(pl, resA, i%2 == 0, i%3 == 0)
		if !q {
			mk(pl, resA, i%2 == 1, i%3 != 0)
		}
	}
	for i, rl := range rlists {
		mk(nil, rl, i%2 == 0, i%3 == 0)
		mk(u.F("x", "A,{B@n?}", "").Params, rl, i%2 == 1, i%3 == 1)
	}
	// the embedded dig.In / dig.Out in other positions of the struct: last,
	// after the first field, after an embedded plain struct that itself embeds
	// two structs (every object of the list gets the same style)
	for i, pl := range plists {
		if !hasParamObject(pl) || (q && i%3 != 0) {
			continue
		}
		for _, style := range []int{1, 2, 3} {
			mk(withParamEmbed(pl, style), resA, i%2 == 0, i%3 == 0)
		}
	}
	for i, rl := range rlists {
		if !hasResultObject(rl.results) || (q && i%3 != 0) {
			continue
		}
		for _, style := range []int{1, 3} {
			mk(u.F("x", "A", "").Params, c18Res{results: withResultEmbed(rl.results, style), opts: rl.opts}, false, i%2 == 0)
		}
	}
	// a cross product of small lists
	for i, pl := range plists {
		if i%37 != 0 {
			continue
		}
		for j, rl := range rlists {
			if j%11 == 0 {
				mk(pl, rl, (i+j)%2 == 0, (i+j)%3 == 0)
			}
		}
	}
	return out
}

func hasParamObject(ps []u.Param) bool {
	for _, p := range ps {
		if p.Kind == u.PObject {
			return true
		}
	}
	return false
}

func withParamEmbed(ps []u.Param, style int) []u.Param {
	out := make([]u.Param, len(ps))
	for i, p := range ps {
		out[i] = p
		if p.Kind == u.PObject {
			out[i].Embed = style
			out[i].Fields = withParamEmbed(p.Fields, style)
		}
	}
	return out
}

func hasResultObject(rs []u.Result) bool {
	for _, r := range rs {
		if r.Kind == u.RObject {
			return true
		}
	}
	return false
}

func withResultEmbed(rs []u.Result, style int) []u.Result {
	out := make([]u.Result, len(rs))
	for i, r := range rs {
		out[i] = r
		if r.Kind == u.RObject {
			out[i].Embed = style
			out[i].Fields = withResultEmbed(r.Fields, style)
		}
	}
	return out
}

func c18Item(sigs []*u.Func) func(i int, stats map[string]int) []Violation {
	return func(i int, stats map[string]int) []Violation {
		f := sigs[i/3]
		hit := func(s string) { stats[s]++ }
		var kind h.OpKind
		switch i % 3 {
		case 0:
			kind = h.OpProvide
		case 1:
			kind = h.OpDecorate
		default:
			kind = h.OpInvoke
		}
		// context: everything the signature may need exists, so Invoke reaches the point where it fills the info
		ctx := []Op{provide(0, pA), provide(0, pBn), provide(0, pB), provide(0, pC), provide(0, fG1), provide(0, u.F("fBh", "", "B", u.Group("h")))}
		if kind != h.OpInvoke {
			ctx = nil
		}
		r := h.Replay(h.Config{}, nil, append(append([]Op{}, ctx...), Op{Kind: kind, Scope: 0, Fn: f}))
		st := r.Steps[len(r.Steps)-1]
		if st.V.Escaped {
			return []Violation{{Rule: "C18/panicked", Detail: fmt.Sprintf("%s panicked: %s", st.Op, st.V.Msg)}}
		}
		stats["verdict_"+st.V.Class()]++
		return infoCheck(st, hit)
	}
}

func c18IDItem(i int, stats map[string]int) []Violation {
	names := u.DeclaredNames
	n := len(names)
	a, b := names[i/n], names[i%n]
	da, db := u.Declared(a), u.Declared(b)
	id := func(d *u.Decl, opts ...func(*u.Func)) (dig.ID, bool) {
		r := h.NewRun(h.Config{})
		r.Apply(scopeOp(0))
		isDeco := strings.HasPrefix(d.Name, "Dd")
		isInv := strings.HasPrefix(d.Name, "Di")
		if isInv {
			return 0, false
		}
		f := u.D(d.Name, append(opts, u.WithInfo)...)
		var st *h.Step
		if isDeco {
			st = r.Apply(decorate(1, f))
			if !st.V.OK {
				return 0, false
			}
			return st.DInfo.ID, true
		}
		st = r.Apply(provide(1, f))
		if !st.V.OK {
			return 0, false
		}
		return st.PInfo.ID, true
	}
	ia, oka := id(da)
	ib, okb := id(db)
	if !oka || !okb {
		return nil
	}
	stats["id_pairs_compared"]++
	if a != b && ia == ib {
		return []Violation{{Rule: "C18/distinct-functions-same-id", Detail: fmt.Sprintf("%s and %s both get ID %d", a, b, ia)}}
	}
	if a != b && !strings.HasPrefix(a, "Dd") {
		// the same function provided with another function's pc as its
		// reported location (LocationForPC) is still the same function
		if il, okl := id(da, u.LocationOf(b)); okl {
			stats["id_with_foreign_location_compared"]++
			if il != ia {
				return []Violation{{Rule: "C18/same-function-different-id", Detail: fmt.Sprintf("%s gets ID %d and, provided with LocationForPC(pc of %s), %d", a, ia, b, il)}}
			}
			if il == ib {
				return []Violation{{Rule: "C18/distinct-functions-same-id", Detail: fmt.Sprintf("%s provided with LocationForPC(pc of %s) gets %s's ID %d", a, b, b, ib)}}
			}
		}
	}
	if a == b {
		// the same function registered again (other scope placement / Export) keeps its ID
		ic, okc := id(da, u.Export)
		if okc && ic != ia {
			return []Violation{{Rule: "C18/same-function-different-id", Detail: fmt.Sprintf("%s gets ID %d and, exported, %d", a, ia, ic)}}
		}
	}
	return nil
}

func init() {
	explore.Register(&explore.Check{
		ID:    "C18",
		Rule:  "Every parameter-list AST (<=3 positional items, each a single or a dig.In object of <=3 fields drawn from named / optional / group / soft-group atoms and nested objects to depth 2, thorough 3) with a fixed result, every result-list AST (positional with Name / Group / flatten / As lists incl. own type; dig.Out objects of <=3 fields nested to depth 2-3) with two fixed parameter lists, and a cross product sample-free subset of both, +/- variadic, +/- error; each through Provide+FillProvideInfo, Decorate+FillDecorateInfo and Invoke+FillInvokeInfo; plus late rejections (duplicate, cycle in the target scope, cycle only in a descendant, decorator conflict) in a context BFS and all pairs of declared-pool functions for IDs.",
		Units: c18Units,
		Assumptions: []string{
			"Input/Output expose only String(); the expected strings come from an independent formatter over the AST",
		},
	})
}

func c18Units(tier string) []Unit {
	sigs := c18Signatures(tier)
	var units []Unit
	units = append(units, Unit{En: &explore.Enum{Name: "signature-grammar", N: 3 * len(sigs), Run: c18Item(sigs),
		Describe: func(i int) string {
			return fmt.Sprintf("%s %s", []string{"provide", "decorate", "invoke"}[i%3], h.FuncText(sigs[i/3]))
		}}})
	n := len(u.DeclaredNames)
	units = append(units, Unit{En: &explore.Enum{Name: "declared-pool-id-pairs", N: n * n, Run: c18IDItem,
		Describe: func(i int) string { return u.DeclaredNames[i/n] + " vs " + u.DeclaredNames[i%n] }}})
	// late rejections with Info structs attached to everything
	iv := infoVariant
	d := 4
	if !quick(tier) {
		d = 5
	}
	ring := alpha{scopes: []int{0, 1}, ctors: []*uFunc{iv(rAB), iv(rBC), iv(rCA), iv(pA), iv(rAgB), iv(rBgC)}, export: true,
		decos: []*uFunc{iv(dA), iv(dAB), iv(dB)}, invokes: []*uFunc{iv(iA), iv(iB)}}
	for _, def := range []bool{false, true} {
		units = append(units, Unit{Sc: &Scenario{Name: fmt.Sprintf("late-rejections/defer=%v", def), Cfg: h.Config{Defer: def}, Prefix: prefixChild, Alphabet: ring.ops(), Depth: d,
			Budget: explore.Budget{Provides: 4, Decorates: 2, Invokes: 1, Rejected: 2}, Monitors: []explore.Monitor{infoMonitor}}})
	}
	return units
}
