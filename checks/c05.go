package checks

import (
	"fmt"
	"strings"
	"sync"

	"go.uber.org/dig"

	"verif/explore"
	h "verif/harness"
	"verif/model"
	u "verif/universe"
)

// C05 — cycle safety. (a) every digraph up to a size bound through the
// internal cycle search; (b) Provide-time rule on "one constructor per key"
// programs over every placement / order / scope-creation time; (c) runtime:
// every Invoke terminates and cycles surface as IsCycleDetected.

// ---------------------------------------------------------------- (a) pure graphs

// graphFromBits: adjacency of an n-node digraph from a bit mask over the n*n
// ordered pairs (self-loops included), edge lists in ascending or descending order.
func graphFromBits(n int, bits uint64, desc bool) [][]int {
	adj := make([][]int, n)
	for i := 0; i < n; i++ {
		for jj := 0; jj < n; jj++ {
			j := jj
			if desc {
				j = n - 1 - jj
			}
			if bits&(1<<uint(i*n+j)) != 0 {
				adj[i] = append(adj[i], j)
			}
		}
	}
	return adj
}

func kahnAcyclic(n int, adj [][]int) bool {
	g := &model.Graph{N: n, Adj: adj}
	return g.Acyclic()
}

func pureGraphItem(n int, noLoops bool) func(i int, stats map[string]int) []Violation {
	return func(i int, stats map[string]int) []Violation {
		bits := uint64(i >> 1)
		desc := i&1 == 1
		if noLoops {
			// spread the n*(n-1) bits over the off-diagonal positions
			var full uint64
			k := 0
			for a := 0; a < n; a++ {
				for b := 0; b < n; b++ {
					if a == b {
						continue
					}
					if bits&(1<<uint(k)) != 0 {
						full |= 1 << uint(a*n+b)
					}
					k++
				}
			}
			bits = full
		}
		adj := graphFromBits(n, bits, desc)
		want := kahnAcyclic(n, adj)
		ok, path := dig.VerifIsAcyclic(n, adj)
		desc2 := func() string { return fmt.Sprintf("n=%d adj=%v", n, adj) }
		var vs []Violation
		if ok != want {
			vs = append(vs, Violation{Rule: "C05/graph-search-wrong-verdict", Detail: fmt.Sprintf("%s: IsAcyclic=%v but the graph is acyclic=%v", desc2(), ok, want)})
			return vs
		}
		if want {
			stats["acyclic_graphs"]++
			if len(path) != 0 {
				vs = append(vs, Violation{Rule: "C05/graph-search-path-for-acyclic", Detail: desc2()})
			}
			return vs
		}
		stats["cyclic_graphs"]++
		if len(path) < 2 || path[0] != path[len(path)-1] {
			return append(vs, Violation{Rule: "C05/reported-cycle-not-closed", Detail: fmt.Sprintf("%s path=%v", desc2(), path)})
		}
		for k := 0; k+1 < len(path); k++ {
			a, b := path[k], path[k+1]
			found := false
			if a >= 0 && a < n {
				for _, x := range adj[a] {
					if x == b {
						found = true
					}
				}
			}
			if !found {
				return append(vs, Violation{Rule: "C05/reported-cycle-not-a-path", Detail: fmt.Sprintf("%s path=%v: %d->%d is not an edge", desc2(), path, a, b)})
			}
		}
		return vs
	}
}

// ---------------------------------------------------------------- (b),(c) container programs

var c05Types = []string{"A", "B", "C", "D"}

type c05Kind int

const (
	kPlain c05Kind = iota
	kOptional
	kObject
	kGroup
	kSoft
	kMixed
	kNamed
	kNested // dependencies declared in a parameter object nested in another one
)

var c05KindNames = []string{"plain", "optional", "object", "group", "soft-group", "mixed", "named", "nested-object"}

type c05Program struct {
	n       int
	adj     [][]int
	kind    c05Kind
	tree    int    // 0 chain r/a/b, 1 fork r/{a,b}
	place   []int  // per key: 0 r, 1 a, 2 a-export, 3 b, 4 b-export
	order   []int  // provide order (permutation of keys)
	late    int    // 0: scopes created first; 1: each scope created as late as possible
	grouped []bool // per key: provided into group g (kGroup/kSoft/kMixed)
}

func (p c05Program) edgeKind(i, j int) c05Kind {
	if p.kind != kMixed {
		return p.kind
	}
	return []c05Kind{kPlain, kOptional, kGroup}[(i+2*j)%3]
}

// build the constructor specs of a program.
func (p *c05Program) specs() []*uFunc {
	p.grouped = make([]bool, p.n)
	for i := 0; i < p.n; i++ {
		for _, j := range p.adj[i] {
			if k := p.edgeKind(i, j); k == kGroup || k == kSoft {
				p.grouped[j] = true
			}
		}
	}
	out := make([]*uFunc, p.n)
	for i := 0; i < p.n; i++ {
		f := &u.Func{ID: "k" + c05Types[i]}
		var fields []u.Param
		for _, j := range p.adj[i] {
			t := c05Types[j]
			k := p.edgeKind(i, j)
			if p.grouped[j] {
				fields = append(fields, u.Param{Kind: u.PGroup, Type: t, Group: "g", Soft: k == kSoft})
				continue
			}
			switch k {
			case kPlain:
				f.Params = append(f.Params, u.Param{Kind: u.PSingle, Type: t})
			case kOptional:
				fields = append(fields, u.Param{Kind: u.PSingle, Type: t, Optional: true})
			case kNamed:
				fields = append(fields, u.Param{Kind: u.PSingle, Type: t, Name: "n"})
			default:
				fields = append(fields, u.Param{Kind: u.PSingle, Type: t})
			}
		}
		if len(fields) > 0 {
			if p.kind == kNested {
				fields = []u.Param{{Kind: u.PObject, Fields: fields}}
			}
			f.Params = append(f.Params, u.Param{Kind: u.PObject, Fields: fields})
		}
		f.Results = []u.Result{{Kind: u.RSingle, Type: c05Types[i]}}
		if p.grouped[i] {
			f.OptGroup = "g"
		} else if p.kind == kNamed {
			f.OptName = "n"
		}
		if p.place[i] == 2 || p.place[i] == 4 {
			f.Export = true
		}
		out[i] = f
	}
	return out
}

func (p c05Program) scopeOf(i int) int {
	switch p.place[i] {
	case 1, 2:
		return 1
	case 3, 4:
		return 2
	}
	return 0
}

func (p c05Program) probe(i int) *uFunc {
	t := c05Types[i]
	if p.grouped != nil && p.grouped[i] {
		return &u.Func{ID: "probe" + t, Params: []u.Param{{Kind: u.PObject, Fields: []u.Param{{Kind: u.PGroup, Type: t, Group: "g"}}}}}
	}
	if p.kind == kNamed {
		return &u.Func{ID: "probe" + t, Params: []u.Param{{Kind: u.PObject, Fields: []u.Param{{Kind: u.PSingle, Type: t, Name: "n"}}}}}
	}
	return &u.Func{ID: "probe" + t, Params: []u.Param{{Kind: u.PSingle, Type: t}}}
}

// ops: the registration history of a program (scope ops + provides).
func (p *c05Program) ops() []Op {
	specs := p.specs()
	parent2 := 1
	if p.tree == 1 {
		parent2 = 0
	}
	var ops []Op
	if p.late == 0 {
		ops = append(ops, scopeOp(0), scopeOp(parent2))
		for _, k := range p.order {
			ops = append(ops, provide(p.scopeOf(k), specs[k]))
		}
		return ops
	}
	created := 0
	for _, k := range p.order {
		for created < p.scopeOf(k) {
			if created == 0 {
				ops = append(ops, scopeOp(0))
			} else {
				ops = append(ops, scopeOp(parent2))
			}
			created++
		}
		ops = append(ops, provide(p.scopeOf(k), specs[k]))
	}
	for created < 2 {
		if created == 0 {
			ops = append(ops, scopeOp(0))
		} else {
			ops = append(ops, scopeOp(parent2))
		}
		created++
	}
	return ops
}

func (p c05Program) String() string {
	var pl []string
	names := []string{"r", "a", "a-export", "b", "b-export"}
	for i := 0; i < p.n; i++ {
		pl = append(pl, c05Types[i]+":"+names[p.place[i]])
	}
	tree := "chain r/a/b"
	if p.tree == 1 {
		tree = "fork r/{a,b}"
	}
	return fmt.Sprintf("graph(ctor of X consumes adj[X])=%v kind=%s tree=%s place=[%s] provide-order=%v late-scopes=%d", p.adj, c05KindNames[p.kind], tree, strings.Join(pl, " "), p.order, p.late)
}

// runtimeGraph: constructor c -> the suppliers of its parameters as resolved
// at run time, i.e. from the scope c was provided to (nearest provider;
// every visible feeder of a non-soft group).
func runtimeGraph(m *model.Model) *model.Graph {
	g := &model.Graph{N: len(m.Ctors), Adj: make([][]int, len(m.Ctors))}
	idx := map[*model.Ctor]int{}
	for i, c := range m.Ctors {
		idx[c] = i
		g.Names = append(g.Names, c.Inst)
	}
	for i, c := range m.Ctors {
		for _, l := range c.P {
			var sup []*model.Ctor
			if l.Key.IsGroup() {
				if l.Soft {
					continue
				}
				sup = m.Feed(c.Orig, l.Key)
			} else {
				sup = m.Prov(c.Orig, l.Key)
			}
			for _, s := range sup {
				dup := false
				for _, x := range g.Adj[i] {
					if x == idx[s] {
						dup = true
					}
				}
				if !dup {
					g.Adj[i] = append(g.Adj[i], idx[s])
				}
			}
		}
	}
	return g
}

// invokeRisk: does resolving the probe from scope x traverse a runtime cycle,
// and is a required dependency missing somewhere in the reachable part?
func invokeRisk(m *model.Model, x int, leaves []u.PLeaf) (cycle bool, onCycle map[string]bool, missing bool) {
	g := runtimeGraph(m)
	idx := map[*model.Ctor]int{}
	for i, c := range m.Ctors {
		idx[c] = i
	}
	oc := g.OnCycle()
	seen := make([]bool, g.N)
	var stack []int
	onCycle = map[string]bool{}
	visitLeaves := func(scope int, ls []u.PLeaf) {
		for _, l := range ls {
			var sup []*model.Ctor
			if l.Key.IsGroup() {
				if l.Soft {
					continue
				}
				sup = m.Feed(scope, l.Key)
			} else {
				sup = m.Prov(scope, l.Key)
				if len(sup) == 0 && !l.Optional {
					missing = true
				}
			}
			for _, s := range sup {
				if !seen[idx[s]] {
					seen[idx[s]] = true
					stack = append(stack, idx[s])
				}
			}
		}
	}
	visitLeaves(x, leaves)
	for len(stack) > 0 {
		n := stack[len(stack)-1]
		stack = stack[:len(stack)-1]
		if oc[n] {
			cycle = true
			onCycle[m.Ctors[n].Inst] = true
		}
		visitLeaves(m.Ctors[n].Orig, m.Ctors[n].P)
	}
	return
}

// crossView: the runtime graph has a cycle although no single scope's graph does.
func crossView(m *model.Model) bool {
	if runtimeGraph(m).Acyclic() {
		return false
	}
	for _, x := range m.Scopes() {
		if !m.GScope(x, nil).Acyclic() {
			return false
		}
	}
	return true
}

// provideCycleRule: three-valued rule for one Provide (model before the op).
func provideCycleRule(prefix string, m *model.Model, st *h.Step, deferred bool, hit func(string)) []Violation {
	var vs []Violation
	f := st.Op.Fn
	extra := &model.Ctor{Inst: "new", F: f, Home: st.Op.Scope, Orig: st.Op.Scope, P: f.PLeaves(), R: f.RLeaves()}
	if f.Export {
		extra.Home = 0
	}
	if st.V.Cycle && m.GPerm(extra).Acyclic() {
		vs = append(vs, Violation{Rule: prefix + "/acyclic-graph-rejected-as-cyclic", Detail: fmt.Sprintf("%s => IsCycleDetected although the graph is acyclic under the most permissive reading", st.Op)})
	}
	if deferred {
		if !st.V.OK && !dupOrInvalid(m, extra) {
			vs = append(vs, Violation{Rule: prefix + "/deferred-provide-rejected", Detail: fmt.Sprintf("%s => %s under DeferAcyclicVerification", st.Op, st.V.Class())})
		}
		return vs
	}
	if dupOrInvalid(m, extra) {
		return vs
	}
	for _, x := range m.Subtree(extra.Home) {
		if !m.GStrict(x, extra).Acyclic() {
			hit("provide_must_be_cycle")
			if !st.V.Cycle {
				vs = append(vs, Violation{Rule: prefix + "/cycle-closing-provide-accepted", Detail: fmt.Sprintf("%s closes a cycle as seen from s%d but => %s", st.Op, x, st.V.Class())})
			}
			return vs
		}
	}
	// a cycle that run-time resolution really traverses (every constructor
	// resolving from the scope it was provided to) and whose members are all
	// visible from one scope is a cycle "as seen from a single scope" too,
	// even where a nearer provider shadows one of its edges for that scope
	mm := m.Clone()
	mm.Ctors = append(mm.Ctors, extra)
	if !runtimeGraph(mm).Acyclic() {
		for _, x := range m.Subtree(extra.Home) {
			if !m.GScope(x, extra).Acyclic() {
				hit("provide_must_be_cycle_runtime")
				if !st.V.Cycle {
					vs = append(vs, Violation{Rule: prefix + "/cycle-closing-provide-accepted", Detail: fmt.Sprintf("%s closes a dependency cycle that run-time resolution traverses and that is visible from s%d, but => %s", st.Op, x, st.V.Class())})
				}
				return vs
			}
		}
	}
	hit("provide_no_strict_cycle")
	return vs
}

// invokeCycleRule: runtime rule for one Invoke.
func invokeCycleRule(prefix string, r *h.Run, st *h.Step, hit func(string)) []Violation {
	var vs []Violation
	m := r.M
	cyc, onCycle, missing := invokeRisk(m, st.Op.Scope, st.Op.Fn.PLeaves())
	if st.V.Escaped {
		vs = append(vs, Violation{Rule: prefix + "/invoke-panicked", Detail: fmt.Sprintf("%s panicked: %s", st.Op, st.V.Msg)})
	}
	if cyc {
		hit("invoke_traverses_runtime_cycle")
		if st.V.OK {
			vs = append(vs, Violation{Rule: prefix + "/invoke-through-cycle-succeeded", Detail: fmt.Sprintf("%s => ok although resolution traverses a dependency cycle", st.Op)})
		} else if !missing && !st.V.Cycle {
			vs = append(vs, Violation{Rule: prefix + "/cycle-not-classified", Detail: fmt.Sprintf("%s traverses a dependency cycle (nothing is missing) but => %s", st.Op, st.V.Class())})
		}
		for _, e := range r.Events(st) {
			if e.Kind == u.EvEnter && onCycle[e.Fn] {
				vs = append(vs, Violation{Rule: prefix + "/function-on-cycle-executed", Detail: fmt.Sprintf("%s ran during %s although it lies on the dependency cycle", e.Fn, st.Op)})
				break
			}
		}
	} else {
		hit("invoke_no_runtime_cycle")
	}
	if st.V.Cycle && m.GPerm(nil).Acyclic() {
		vs = append(vs, Violation{Rule: prefix + "/acyclic-graph-rejected-as-cyclic", Detail: fmt.Sprintf("%s => IsCycleDetected although the graph is acyclic under the most permissive reading", st.Op)})
	}
	return vs
}

func perms(n int) [][]int {
	var out [][]int
	var rec func(cur []int, used []bool)
	rec = func(cur []int, used []bool) {
		if len(cur) == n {
			out = append(out, append([]int{}, cur...))
			return
		}
		for i := 0; i < n; i++ {
			if !used[i] {
				used[i] = true
				rec(append(cur, i), used)
				used[i] = false
			}
		}
	}
	rec(nil, make([]bool, n))
	return out
}

func placements(n int, choices []int) [][]int {
	out := [][]int{{}}
	for i := 0; i < n; i++ {
		var next [][]int
		for _, p := range out {
			for _, c := range choices {
				next = append(next, append(append([]int{}, p...), c))
			}
		}
		out = next
	}
	return out
}

func offDiagonalGraphs(n int) [][][]int {
	var out [][][]int
	total := n * (n - 1)
	for bits := 0; bits < 1<<uint(total); bits++ {
		adj := make([][]int, n)
		k := 0
		for a := 0; a < n; a++ {
			for b := 0; b < n; b++ {
				if a == b {
					continue
				}
				if bits&(1<<uint(k)) != 0 {
					adj[a] = append(adj[a], b)
				}
				k++
			}
		}
		out = append(out, adj)
	}
	return out
}

func ring(n int, chords ...[2]int) [][]int {
	adj := make([][]int, n)
	for i := 0; i < n; i++ {
		adj[i] = append(adj[i], (i+1)%n)
	}
	for _, c := range chords {
		adj[c[0]] = append(adj[c[0]], c[1])
	}
	return adj
}

// c05Block is a cartesian block of programs, decoded from an index.
type c05Block struct {
	n      int
	graphs [][][]int
	kinds  []c05Kind
	trees  []int
	places [][]int
	orders [][]int
	lates  []int
}

func (b c05Block) size() int {
	return len(b.graphs) * len(b.kinds) * len(b.trees) * len(b.places) * len(b.orders) * len(b.lates)
}

func (b c05Block) at(i int) c05Program {
	l := b.lates[i%len(b.lates)]
	i /= len(b.lates)
	o := b.orders[i%len(b.orders)]
	i /= len(b.orders)
	pl := b.places[i%len(b.places)]
	i /= len(b.places)
	t := b.trees[i%len(b.trees)]
	i /= len(b.trees)
	k := b.kinds[i%len(b.kinds)]
	i /= len(b.kinds)
	return c05Program{n: b.n, adj: b.graphs[i], kind: k, tree: t, place: pl, order: o, late: l}
}

type c05Space struct {
	blocks []c05Block
	total  int
}

func (s *c05Space) at(i int) c05Program {
	for _, b := range s.blocks {
		if n := b.size(); i < n {
			return b.at(i)
		} else {
			i -= n
		}
	}
	panic("c05Space: index out of range")
}

func c05Space1(tier string) *c05Space {
	q := quick(tier)
	sp := &c05Space{}
	add := func(n int, graphs [][][]int, kinds []c05Kind, trees []int, places [][]int, orders [][]int, lates []int) {
		b := c05Block{n, graphs, kinds, trees, places, orders, lates}
		sp.blocks = append(sp.blocks, b)
		sp.total += b.size()
	}
	all5 := []int{0, 1, 2, 3, 4}
	kindsQ := []c05Kind{kPlain, kOptional, kGroup, kSoft, kMixed}
	kindsT := []c05Kind{kPlain, kOptional, kObject, kGroup, kSoft, kMixed, kNamed, kNested}
	// self-loops and 2-cycles with every placement
	add(1, [][][]int{{{0}}}, kindsT, []int{0}, placements(1, all5), perms(1), []int{0, 1})
	add(2, [][][]int{{{1}, {0}}, {{1}, {}}, {{0, 1}, {}}, {{1}, {1}}}, kindsT, []int{0, 1}, placements(2, all5), perms(2), []int{0, 1})
	if q {
		// every digraph on 3 keys: plain/optional/group/mixed; every placement; every order; both scope timings
		add(3, offDiagonalGraphs(3), kindsQ, []int{1}, placements(3, all5), perms(3), []int{0, 1})
		add(3, offDiagonalGraphs(3), []c05Kind{kPlain, kGroup}, []int{0}, placements(3, all5), perms(3), []int{0})
		// nested parameter objects, named values: every digraph on 3 keys in the root and one child
		add(3, offDiagonalGraphs(3), []c05Kind{kNested, kNamed}, []int{0}, placements(3, []int{0, 1, 2}), perms(3), []int{0})
		// rings and rings + one chord on 4 keys, plain edges, every placement, some orders
		g4 := [][][]int{ring(4), ring(4, [2]int{0, 2}), ring(4, [2]int{2, 0}), ring(4, [2]int{1, 3})}
		add(4, g4, []c05Kind{kPlain}, []int{1}, placements(4, all5), [][]int{{0, 1, 2, 3}, {3, 2, 1, 0}, {1, 3, 0, 2}}, []int{0})
		add(4, g4[:1], []c05Kind{kPlain}, []int{0}, placements(4, all5), [][]int{{0, 1, 2, 3}, {2, 0, 3, 1}}, []int{0})
	} else {
		add(3, offDiagonalGraphs(3), kindsT, []int{0, 1}, placements(3, all5), perms(3), []int{0, 1})
		var g4 [][][]int
		g4 = append(g4, ring(4))
		for a := 0; a < 4; a++ {
			for b := 0; b < 4; b++ {
				if a != b && (a+1)%4 != b {
					g4 = append(g4, ring(4, [2]int{a, b}))
				}
			}
		}
		// chains (acyclic) with a back edge at every position
		g4 = append(g4, [][]int{{1}, {2}, {3}, {}}, [][]int{{1}, {2}, {3}, {1}}, [][]int{{1, 2}, {3}, {3}, {0}}, [][]int{{1}, {0, 2}, {3}, {2}})
		add(4, g4, []c05Kind{kPlain, kOptional, kGroup, kMixed}, []int{0, 1}, placements(4, all5), perms(4), []int{0})
	}
	return sp
}

func c05ProgramItem(progs *c05Space) func(i int, stats map[string]int) []Violation {
	return func(i int, stats map[string]int) []Violation {
		p := progs.at(i / 2)
		deferred := i%2 == 1
		var vs []Violation
		ops := p.ops()
		r := h.NewRun(h.Config{Defer: deferred})
		hit := func(s string) { stats[s]++ }
		for _, op := range ops {
			st := r.Apply(op)
			if op.Kind == h.OpProvide {
				vs = append(vs, provideCycleRule("C05", st.Model, st, deferred, hit)...)
				if len(r.Events(st)) > 0 {
					vs = append(vs, Violation{Rule: "C05/provide-executed-user-code", Detail: op.String()})
				}
			}
		}
		if len(vs) > 0 {
			return vs
		}
		// probe sweep: every key from every scope; invocations the model
		// predicts to traverse a cross-view runtime cycle are left to the
		// per-invoke unit so that a fatal one is attributed exactly.
		cv := crossView(r.M)
		for k := 0; k < p.n; k++ {
			for s := 0; s < 3; s++ {
				probe := p.probe(k)
				if cv {
					if cyc, _, _ := invokeRisk(r.M, s, probe.PLeaves()); cyc {
						stats["risky_invokes_deferred_to_unit2"]++
						continue
					}
				}
				st := r.Apply(invoke(s, probe))
				vs = append(vs, invokeCycleRule("C05", r, st, hit)...)
				if len(vs) > 0 {
					return vs
				}
			}
		}
		return vs
	}
}

type c05Risky struct {
	prog     int
	deferred bool
	key, s   int
}

// risky invocations: (program, defer, key, scope) whose resolution traverses a
// runtime cycle that no single scope's graph contains.
func c05RiskyList(progs *c05Space) []c05Risky {
	var out []c05Risky
	type verdict struct{ pairs [][2]int }
	cache := map[string]*verdict{}
	for pi := 0; pi < progs.total; pi++ {
		p := progs.at(pi)
		if p.n < 3 {
			continue
		}
		exports := 0
		for _, pl := range p.place {
			if pl == 2 || pl == 4 {
				exports++
			}
		}
		if exports == 0 || kahnAcyclic(p.n, p.adj) {
			continue // a cross-view cycle needs a cyclic graph and an exported constructor
		}
		key := fmt.Sprint(p.adj, p.kind, p.tree, p.place)
		v, ok := cache[key]
		if !ok {
			v = &verdict{}
			cache[key] = v
			// the model state after all registrations, assuming all accepted
			m := model.New()
			parent2 := 1
			if p.tree == 1 {
				parent2 = 0
			}
			m.AddScope(0)
			m.AddScope(parent2)
			specs := p.specs()
			for k := 0; k < p.n; k++ {
				m.AddCtor(fmt.Sprintf("%s#0", specs[k].ID), specs[k], p.scopeOf(k), 0)
			}
			if crossView(m) {
				for k := 0; k < p.n; k++ {
					for s := 0; s < 3; s++ {
						if cyc, _, _ := invokeRisk(m, s, p.probe(k).PLeaves()); cyc {
							v.pairs = append(v.pairs, [2]int{k, s})
						}
					}
				}
			}
		}
		for _, ks := range v.pairs {
			out = append(out, c05Risky{pi, false, ks[0], ks[1]}, c05Risky{pi, true, ks[0], ks[1]})
		}
	}
	return out
}

func c05RiskyItem(progs *c05Space, risky func() []c05Risky) func(i int, stats map[string]int) []Violation {
	return func(i int, stats map[string]int) []Violation {
		rk := risky()[i]
		p := progs.at(rk.prog)
		r := h.NewRun(h.Config{Defer: rk.deferred})
		for _, op := range p.ops() {
			r.Apply(op)
		}
		st := r.Apply(invoke(rk.s, p.probe(rk.key)))
		return invokeCycleRule("C05", r, st, func(s string) { stats[s]++ })
	}
}

func init() {
	explore.Register(&explore.Check{
		ID:               "C05",
		DeathIsViolation: true,
		Rule:             "(a) every digraph on n<=4 nodes incl. self-loops in two edge orders (thorough: n=5 without self-loops) through the internal cycle search, judged by an independent Kahn acyclicity test and path validation; (b,c) every 'one constructor per key' program for every digraph on <=3 keys (rings/chords on 4) x edge kind x placement of each constructor in {r,a,a-export,b,b-export} x tree shape x Provide order x scope-creation timing x Defer off/on, each followed by Invoke of every key from every scope.",
		Units:            c05Units,
		Assumptions: []string{
			"larger digraphs are not sampled (sampling is a different technique): the bound is stated instead",
			"three-valued cycle rule: MUST reject on a cycle seen from a single scope (nearest providers), MUST NOT on graphs acyclic under the most permissive reading",
		},
	})
}

func c05Units(tier string) []Unit {
	var units []Unit
	q := quick(tier)
	units = append(units, Unit{En: &explore.Enum{Name: "pure-digraphs-n<=4-with-self-loops", N: 2 << 16, Run: pureGraphItem(4, false),
		Describe: func(i int) string { return fmt.Sprintf("n=4 adj=%v", graphFromBits(4, uint64(i>>1), i&1 == 1)) }}})
	units = append(units, Unit{En: &explore.Enum{Name: "pure-digraphs-n=3-with-self-loops", N: 2 << 9, Run: pureGraphItem(3, false),
		Describe: func(i int) string { return fmt.Sprintf("n=3 adj=%v", graphFromBits(3, uint64(i>>1), i&1 == 1)) }}})
	if !q {
		units = append(units, Unit{En: &explore.Enum{Name: "pure-digraphs-n=5-no-self-loops", N: 2 << 20, Run: pureGraphItem(5, true),
			Describe: func(i int) string { return fmt.Sprintf("n=5 off-diagonal bits=%#x order=%d", i>>1, i&1) }}})
	}
	progs := c05Space1(tier)
	units = append(units, Unit{En: &explore.Enum{Name: "programs", N: 2 * progs.total, Run: c05ProgramItem(progs),
		Describe: func(i int) string { return fmt.Sprintf("defer=%v %s", i%2 == 1, progs.at(i/2)) }}})
	// the list of risky invocations is computed lazily: the master needs its
	// length, a worker only needs it when it is handed a job of that unit
	var once sync.Once
	var riskyList []c05Risky
	risky := func() []c05Risky {
		once.Do(func() { riskyList = c05RiskyList(progs) })
		return riskyList
	}
	n := 0
	if !explore.IsWorker {
		n = len(risky())
	}
	units = append(units, c05HistoryUnits(tier)...)
	units = append(units, Unit{En: &explore.Enum{Name: "invokes-through-cross-view-cycles", N: n, Run: c05RiskyItem(progs, risky),
		Describe: func(i int) string {
			rk := risky()[i]
			p := progs.at(rk.prog)
			p.specs()
			return fmt.Sprintf("class=cross-view-runtime-cycle defer=%v invoke %s from s%d after %s", rk.deferred, c05Types[rk.key], rk.s, p)
		}}})
	return units
}

// ---- history units: registrations interleaved with invocations (a scope that
// was verified once, then gets a cycle), and registrations made from inside a
// running Invoke.

func c05Monitor(c *Ctx) []Violation {
	st := c.Step
	var vs []Violation
	switch st.Op.Kind {
	case h.OpProvide:
		if st.Op.Fn != nil {
			vs = append(vs, provideCycleRule("C05", st.Model, st, c.Sc.Cfg.Defer, c.Hit)...)
		}
	case h.OpInvoke:
		if st.Op.Fn != nil {
			vs = append(vs, invokeCycleRule("C05", c.Run, st, c.Hit)...)
		}
		// registrations made by the invoked function itself are judged like any other
		for _, n := range c.Run.Steps {
			if n != st && n.LogFrom >= st.LogFrom && n.LogFrom <= st.LogTo && n.Op.Kind == h.OpProvide && n.Op.Fn != nil && len(c.Run.Steps) > 0 && isNestedOf(st, n) {
				vs = append(vs, provideCycleRule("C05", n.Model, n, c.Sc.Cfg.Defer, c.Hit)...)
			}
		}
	}
	return vs
}

func isNestedOf(outer, n *h.Step) bool {
	for _, o := range outer.Op.Nested {
		if o.Fn == n.Op.Fn && o.Scope == n.Op.Scope && o.Kind == n.Op.Kind {
			return true
		}
	}
	return false
}

var i0 = u.F("i0", "", "") // an invoked function without parameters

var rBA = u.F("rBA", "A", "B") // B needs A

func c05HistoryUnits(tier string) []Unit {
	q := quick(tier)
	var units []Unit
	d, b := 5, explore.Budget{Provides: 3, Invokes: 2, Rejected: 1}
	if !q {
		d, b = 7, explore.Budget{Provides: 4, Invokes: 3, Rejected: 2}
	}
	for _, def := range []bool{false, true} {
		// 1. Provide / Invoke interleavings over ring pieces in two scopes with Export
		a := alpha{scopes: []int{0, 1}, ctors: []*uFunc{rAB, pB, rBC, rCA, rAoB}, export: true, invokes: []*uFunc{iA, iB, i0}}
		units = append(units, Unit{Sc: &Scenario{Name: fmt.Sprintf("histories/ring/defer=%v", def), Cfg: h.Config{Defer: def}, Prefix: prefixChild,
			Alphabet: a.ops(), Depth: d, Budget: b, Allowed: onceEach, Monitors: []explore.Monitor{c05Monitor}}})
		// 1b. a four-ring whose edge is shadowed for the scope that sees the
		// whole ring (a second, nearer provider of one key): run-time
		// resolution still traverses the ring
		sh := alpha{scopes: []int{0, 1}, ctors: []*uFunc{rAB, rBC, rCD, rDA, pB0}, export: true, invokes: []*uFunc{iA}}
		if !def || !q { // quick: eager verification only (that is where the Provide must be rejected)
			units = append(units, Unit{Sc: &Scenario{Name: fmt.Sprintf("histories/shadowed-ring/defer=%v", def), Cfg: h.Config{Defer: def}, Prefix: prefixChild,
				Alphabet: sh.ops(), Depth: 6, Budget: explore.Budget{Provides: 5, Invokes: 1, Rejected: 1}, Allowed: onceEach, Monitors: []explore.Monitor{c05Monitor}}})
		}
		// 1c. a two-ring closed across scopes, with accepted and rejected
		// Decorate calls (single key; group, which adds graph nodes) in between
		if !def || !q {
			dr := alpha{scopes: []int{0, 1}, ctors: []*uFunc{rAB, rBA, pDd}, export: true, decos: []*uFunc{dA, dA0, dG, dGns}, invokes: []*uFunc{iA}}
			units = append(units, Unit{Sc: &Scenario{Name: fmt.Sprintf("histories/rejected-decorate-between/defer=%v", def), Cfg: h.Config{Defer: def}, Prefix: prefixChild,
				Alphabet: dr.ops(), Depth: 6, Budget: explore.Budget{Provides: 3, Decorates: 2, Invokes: 1, Rejected: 2}, Allowed: onceEach, Monitors: []explore.Monitor{c05Monitor}}})
		}
		// 2. the same pieces registered from inside a running Invoke
		var ops []Op
		pieces := []*uFunc{rAB, pB, pDd}
		for _, f := range pieces {
			for _, s := range []int{0, 1} {
				ops = append(ops, provide(s, f))
				for _, from := range []int{0, 1} {
					ops = append(ops, Op{Kind: h.OpInvoke, Scope: from, Fn: i0, Nested: []Op{provide(s, f)}})
				}
			}
		}
		ops = append(ops, invoke(0, iA), invoke(1, iA), invoke(0, iB))
		units = append(units, Unit{Sc: &Scenario{Name: fmt.Sprintf("histories/provide-during-invoke/defer=%v", def), Cfg: h.Config{Defer: def}, Prefix: prefixChild,
			Alphabet: ops, Depth: d, Budget: explore.Budget{Provides: 3, Invokes: 3, Rejected: 1}, Monitors: []explore.Monitor{c05Monitor}}})
	}
	return units
}
