package checks

import (
	"fmt"
	"sort"
	"strings"

	h "verif/harness"
	"verif/model"
	u "verif/universe"
)

func hasPlans(c *Ctx) bool { return len(c.Sc.Plans) > 0 }

// silentOpsMonitor: Provide, Decorate, Scope, Visualize and String never
// execute user functions.
func silentOpsMonitor(prefix string) func(c *Ctx) []Violation {
	return func(c *Ctx) []Violation {
		st := c.Step
		if st.Op.Kind == h.OpInvoke {
			return nil
		}
		c.Hit("non_invoke_ops_checked")
		if evs := c.Run.Events(st); len(evs) > 0 {
			return []Violation{{Rule: prefix + "/non-invoke-op-executed-user-code", Detail: fmt.Sprintf("%s ran %s", st.Op, evs[0].Fn)}}
		}
		return nil
	}
}

// lazinessMonitor (C03): an Invoke executes only functions in the model's
// may-run closure, on success every not-yet-built function of the must-run
// closure has completed, and every dependency completed before its consumer
// was entered.
func lazinessMonitor(prefix string) func(c *Ctx) []Violation {
	return func(c *Ctx) []Violation {
		st := c.Step
		if st.Op.Kind != h.OpInvoke || st.Op.Fn == nil {
			return nil
		}
		var vs []Violation
		m := c.Run.M
		li := indexLog(c.Run.RT.Log)
		leaves := st.Op.Fn.PLeaves()
		may := m.MayRun(st.Op.Scope, leaves, model.DecoSet{})
		ran := map[string]bool{}
		for i := st.LogFrom; i < st.LogTo; i++ {
			e := c.Run.RT.Log[i]
			if e.Kind != u.EvEnter {
				continue
			}
			if e.Fn == st.Inst {
				continue
			}
			ran[e.Fn] = true
			c.Hit("executions_checked_against_closure")
			if !may[e.Fn] {
				vs = append(vs, Violation{Rule: prefix + "/executed-outside-closure", Detail: fmt.Sprintf("%s ran during %s but is not reachable from its parameters (required, optional-with-constructor, non-soft group, enclosing decorator)", e.Fn, st.Op)})
			}
			// dependencies ran to completion before the consumer
			for _, a := range e.Args {
				for _, t := range a.Toks {
					if t.IsZero() {
						continue
					}
					if r := li.byKey[fmt.Sprintf("%s.%d", t.Fn, t.Exec)]; r == nil || r.exit < 0 || r.exit > i {
						vs = append(vs, Violation{Rule: prefix + "/dependency-not-completed-first", Detail: fmt.Sprintf("%s received %v before that execution completed", e.Fn, t)})
					}
				}
			}
		}
		if st.V.OK {
			// (also under fault plans: an Invoke that succeeded has every
			// required member of its closure completed, retried or not)
			must := m.MustRun(st.Op.Scope, leaves, model.DecoSet{}, li.doneBefore(st.LogFrom))
			done := li.doneBefore(st.LogTo)
			for inst := range must {
				c.Hit("must_run_checked")
				if !done(inst) {
					vs = append(vs, Violation{Rule: prefix + "/closure-member-not-run", Detail: fmt.Sprintf("%s succeeded but %s, which is in the required closure and was not built before, never completed", st.Op, inst)})
				}
			}
		}
		if len(ran) == 0 {
			c.Hit("invokes_running_nothing")
		}
		return vs
	}
}

// singletonMonitor (C02): over the whole history so far.
func singletonMonitor(prefix string) func(c *Ctx) []Violation {
	return func(c *Ctx) []Violation {
		if c.Step.LogTo == c.Step.LogFrom {
			return nil
		}
		var vs []Violation
		log := c.Run.RT.Log
		okCount := map[string]int{}
		open := map[string]bool{}
		flagged := map[string]bool{}
		serial := map[string]int64{}
		for i, e := range log {
			switch e.Kind {
			case u.EvEnter:
				if okCount[e.Fn] > 0 && !flagged["re"+e.Fn] {
					flagged["re"+e.Fn] = true
					if i >= c.Step.LogFrom {
						vs = append(vs, Violation{Rule: prefix + "/executed-again-after-success", Detail: fmt.Sprintf("%s was entered again (execution %d) after it had already returned successfully", e.Fn, e.Exec)})
					}
				}
				if open[e.Fn] && i >= c.Step.LogFrom {
					vs = append(vs, Violation{Rule: prefix + "/re-entered-while-being-built", Detail: fmt.Sprintf("%s entered while an earlier execution had not returned", e.Fn)})
				}
				open[e.Fn] = true
				for _, a := range e.Args {
					for _, t := range a.Toks {
						if t.IsZero() {
							continue
						}
						k := fmt.Sprintf("%s/%d.%d", t.Fn, t.Slot, t.Elem)
						if s, ok := serial[k]; ok && s != t.Serial {
							if i >= c.Step.LogFrom && !flagged["id"+k] {
								flagged["id"+k] = true
								vs = append(vs, Violation{Rule: prefix + "/two-instances-observable", Detail: fmt.Sprintf("consumers received two different instances of result %s (%s got execution %d's)", k, e.Fn, t.Exec)})
							}
						} else {
							serial[k] = t.Serial
						}
						c.Hit("instance_identity_checked")
					}
				}
			case u.EvExit:
				open[e.Fn] = false
				if e.Outcome == u.BehOK {
					okCount[e.Fn]++
				}
			}
		}
		return vs
	}
}

// availabilityMonitor (C04).
func availabilityMonitor(prefix string) func(c *Ctx) []Violation {
	return func(c *Ctx) []Violation {
		st := c.Step
		if st.Op.Kind != h.OpInvoke || st.Op.Fn == nil {
			return nil
		}
		var vs []Violation
		m := c.Run.M
		li := indexLog(c.Run.RT.Log)
		leaves := st.Op.Fn.PLeaves()
		av := m.Avail(st.Op.Scope, leaves, model.DecoSet{}, li.doneBefore(st.LogFrom))
		invokedRan := false
		for i := st.LogFrom; i < st.LogTo; i++ {
			e := c.Run.RT.Log[i]
			if e.Kind != u.EvEnter {
				continue
			}
			if e.Fn == st.Inst {
				invokedRan = true
				continue
			}
			// no constructor runs whose own direct required dependencies are unavailable
			if ct := m.CtorByInst(e.Fn); ct != nil {
				for _, l := range ct.P {
					if l.Key.IsGroup() || l.Optional {
						continue
					}
					if m.Resolve(ct.Orig, l.Key, model.DecoSet{}).None() && len(m.DecoChain(ct.Orig, l.Key)) == 0 {
						vs = append(vs, Violation{Rule: prefix + "/constructor-with-missing-dependency-ran", Detail: fmt.Sprintf("%s ran although its required %v has no constructor visible from s%d", e.Fn, l.Key, ct.Orig)})
					}
				}
			}
		}
		switch av {
		case model.No:
			c.Hit("must_fail_missing")
			// a user function that failed (by plan) before dig reached the
			// missing dependency legitimately decides the outcome: the
			// order in which independent dependencies are built is
			// unspecified (§3.6-6), so only "did not succeed, invoked
			// function did not run" is asserted then
			userFailed := false
			for _, e := range c.Run.Events(st) {
				if e.Kind == u.EvExit && e.Outcome != u.BehOK {
					userFailed = true
				}
			}
			if userFailed {
				c.Hit("must_fail_missing_but_a_function_failed_first")
				if st.V.OK {
					vs = append(vs, Violation{Rule: prefix + "/missing-required-dependency-not-reported", Detail: fmt.Sprintf("%s => ok although a required dependency in its closure has no visible constructor", st.Op)})
				}
			} else if st.V.OK || st.V.Escaped {
				vs = append(vs, Violation{Rule: prefix + "/missing-required-dependency-not-reported", Detail: fmt.Sprintf("%s => %s although a required dependency in its closure has no visible constructor", st.Op, st.V.Class())})
			} else if !st.V.DigErr || st.V.User != nil || st.V.RootPanic {
				vs = append(vs, Violation{Rule: prefix + "/missing-dependency-wrong-error-class", Detail: fmt.Sprintf("%s => %s; expected a dig error", st.Op, st.V.Class())})
			}
			if invokedRan {
				vs = append(vs, Violation{Rule: prefix + "/invoked-function-ran-despite-missing", Detail: st.Op.String()})
			}
		case model.Yes:
			if hasPlans(c) {
				break
			}
			if m.GPerm(nil).Acyclic() {
				c.Hit("must_succeed")
				if !st.V.OK {
					vs = append(vs, Violation{Rule: prefix + "/available-acyclic-invoke-failed", Detail: fmt.Sprintf("%s => %s (%s) although every required dependency is available, the graph is acyclic and no function fails", st.Op, st.V.Class(), st.V.Msg)})
				}
			} else {
				c.Hit("abstain_gperm_cyclic")
			}
		default:
			c.Hit("abstain_availability_unknown")
		}
		return vs
	}
}

// stabilityMonitor (C02): what a scope resolves a key to does not change
// between two successful Invokes from that scope unless a registration was
// accepted in between — values are cached, constructors and decorators run
// once, so the same (scope, key) keeps yielding the identical instance (for a
// non-soft group: the identical multiset of instances).
func stabilityMonitor(prefix string) func(c *Ctx) []Violation {
	return func(c *Ctx) []Violation {
		cur := c.Step
		if cur.Op.Kind != h.OpInvoke || !cur.V.OK || cur.Op.Fn == nil {
			return nil
		}
		var vs []Violation
		last := map[string]string{}
		log := c.Run.RT.Log
		for _, st := range c.Run.Steps {
			switch st.Op.Kind {
			case h.OpProvide, h.OpDecorate, h.OpScope:
				if st.V.OK {
					last = map[string]string{}
				}
				continue
			case h.OpInvoke:
			default:
				continue
			}
			if !st.V.OK || st.Op.Fn == nil || st.Inst == "" {
				continue
			}
			leaves := st.Op.Fn.PLeaves()
			for i := st.LogFrom; i < st.LogTo && i < len(log); i++ {
				e := log[i]
				if e.Kind != u.EvEnter || e.Fn != st.Inst {
					continue
				}
				for _, a := range e.Args {
					if a.Leaf >= len(leaves) {
						continue
					}
					l := leaves[a.Leaf]
					if l.Key.IsGroup() && l.Soft {
						continue
					}
					var ss []string
					for _, t := range a.Toks {
						if t.IsZero() {
							ss = append(ss, "zero")
						} else {
							ss = append(ss, fmt.Sprintf("%s#%d", t.String(), t.Serial))
						}
					}
					sort.Strings(ss)
					sig := strings.Join(ss, ",")
					k := fmt.Sprintf("s%d|%v", st.Op.Scope, l.Key)
					if prev, ok := last[k]; ok && prev != sig && st == cur {
						vs = append(vs, Violation{Rule: prefix + "/key-changed-instance-without-registration", Detail: fmt.Sprintf("%s received [%s] for %v; an earlier Invoke from the same scope received [%s] and nothing was registered in between", st.Op, sig, l.Key, prev)})
					}
					if st == cur {
						c.Hit("stable_deliveries_checked")
					}
					last[k] = sig
				}
			}
		}
		return vs
	}
}

// provideAcceptMonitor: a Provide of a well-formed constructor is rejected
// only for a duplicate key or for a cycle; when it provides no key its home
// scope already has and the dependency graph stays acyclic even under the most
// permissive reading, it must be accepted (otherwise the constructor is usable
// from nowhere).
func provideAcceptMonitor(prefix string) func(c *Ctx) []Violation {
	return func(c *Ctx) []Violation {
		st := c.Step
		if st.Op.Kind != h.OpProvide || st.Op.Fn == nil || st.V.Bad {
			return nil
		}
		f := st.Op.Fn
		extra := &model.Ctor{Inst: "new", F: f, Home: st.Op.Scope, Orig: st.Op.Scope, P: f.PLeaves(), R: f.RLeaves()}
		if f.Export {
			extra.Home = 0
		}
		c.Hit("provide_acceptance_checked")
		if st.V.OK || dupOrInvalid(st.Model, extra) || !st.Model.GPerm(extra).Acyclic() {
			return nil
		}
		return []Violation{{Rule: prefix + "/valid-provide-rejected", Detail: fmt.Sprintf("%s => %s (%s) although it provides no key its scope already has and closes no cycle under any reading", st.Op, st.V.Class(), st.V.Msg)}}
	}
}

// stabilityState renders what stabilityMonitor remembers of a history: the
// deliveries to invoked functions per (scope, key) since the last accepted
// registration. Part of the dedup key of scenarios that use the monitor.
func stabilityState(r *h.Run) string {
	last := map[string]string{}
	log := r.RT.Log
	for _, st := range r.Steps {
		switch st.Op.Kind {
		case h.OpProvide, h.OpDecorate, h.OpScope:
			if st.V.OK {
				last = map[string]string{}
			}
			continue
		case h.OpInvoke:
		default:
			continue
		}
		if !st.V.OK || st.Op.Fn == nil || st.Inst == "" {
			continue
		}
		leaves := st.Op.Fn.PLeaves()
		for i := st.LogFrom; i < st.LogTo && i < len(log); i++ {
			e := log[i]
			if e.Kind != u.EvEnter || e.Fn != st.Inst {
				continue
			}
			for _, a := range e.Args {
				if a.Leaf >= len(leaves) {
					continue
				}
				l := leaves[a.Leaf]
				if l.Key.IsGroup() && l.Soft {
					continue
				}
				var ss []string
				for _, t := range a.Toks {
					if t.IsZero() {
						ss = append(ss, "zero")
					} else {
						// instance identity without the process-unique serial:
						// which execution of which function produced it
						ss = append(ss, t.String())
					}
				}
				sort.Strings(ss)
				last[fmt.Sprintf("s%d|%v", st.Op.Scope, l.Key)] = strings.Join(ss, ",")
			}
		}
	}
	var ks []string
	for k, v := range last {
		ks = append(ks, k+"="+v)
	}
	sort.Strings(ks)
	return strings.Join(ks, ";")
}
