package checks

import (
	"fmt"
	"strings"

	"verif/explore"
	h "verif/harness"
	u "verif/universe"
)

// C15 — parameter/result objects are equivalent to positional forms
// (style D: every equivalent encoding of each function of every base program).

func leafParams(f *u.Func) (leaves []u.Param, hasSoft bool) {
	var walk func(p u.Param)
	walk = func(p u.Param) {
		if p.Kind == u.PObject {
			for _, q := range p.Fields {
				walk(q)
			}
			return
		}
		if p.Soft {
			hasSoft = true
		}
		leaves = append(leaves, p)
	}
	for _, p := range f.Params {
		walk(p)
	}
	return
}

func leafResults(f *u.Func) []u.Result {
	var out []u.Result
	var walk func(r u.Result, top bool)
	walk = func(r u.Result, top bool) {
		if r.Kind == u.RObject {
			for _, q := range r.Fields {
				walk(q, false)
			}
			return
		}
		if top {
			if f.OptName != "" {
				r.Name = f.OptName
			}
			if f.OptGroup != "" {
				parts := strings.Split(f.OptGroup, ",")
				r.Kind = u.RGroup
				r.Group = parts[0]
				if len(parts) > 1 && parts[1] == "flatten" {
					r.Flatten = true
					r.N = f.FlatN
					r.Type = strings.TrimSuffix(strings.TrimPrefix(r.Type, "["), "]")
				}
			}
		}
		out = append(out, r)
	}
	for _, r := range f.Results {
		walk(r, true)
	}
	return out
}

// encodings returns the equivalent encodings of f, keyed by encoding name.
func encodings(f *u.Func) map[string]*u.Func {
	out := map[string]*u.Func{}
	lp, soft := leafParams(f)
	mk := func(name string, mod func(g *u.Func)) {
		g := *f
		g.ID = f.ID + "~" + name
		mod(&g)
		out[name] = &g
	}
	obj := func(ls []u.Param) u.Param { return u.Param{Kind: u.PObject, Fields: ls} }
	if len(lp) > 0 {
		mk("pobj", func(g *u.Func) { g.Params = []u.Param{obj(lp)} })
		mk("pnest", func(g *u.Func) { g.Params = []u.Param{obj([]u.Param{obj(lp)})} })
		mk("pnest2", func(g *u.Func) {
			// first leaf directly, the rest in a nested object
			if len(lp) > 1 {
				g.Params = []u.Param{obj([]u.Param{lp[0], obj(lp[1:])})}
			} else {
				g.Params = []u.Param{obj([]u.Param{obj([]u.Param{obj(lp)})})}
			}
		})
		if !soft {
			mk("psplit", func(g *u.Func) {
				g.Params = nil
				for _, l := range lp {
					g.Params = append(g.Params, obj([]u.Param{l}))
				}
			})
		}
	}
	if !f.Variadic {
		mk("variadic", func(g *u.Func) { g.Variadic = true })
	}
	if len(f.Params) == 0 {
		// no parameters <-> one empty parameter object
		mk("pempty", func(g *u.Func) { g.Params = []u.Param{obj(nil)} })
	}
	if len(f.As) == 0 && len(f.Results) > 0 {
		lr := leafResults(f)
		robj := func(ls []u.Result) u.Result { return u.Result{Kind: u.RObject, Fields: ls} }
		clear := func(g *u.Func) { g.OptName, g.OptGroup, g.FlatN = "", "", 0 }
		mk("rout", func(g *u.Func) { clear(g); g.Results = []u.Result{robj(lr)} })
		mk("rnest", func(g *u.Func) { clear(g); g.Results = []u.Result{robj([]u.Result{robj(lr)})} })
		if len(lr) > 1 {
			mk("rsplit", func(g *u.Func) {
				clear(g)
				g.Results = nil
				for _, l := range lr {
					g.Results = append(g.Results, robj([]u.Result{l}))
				}
			})
		}
		if len(lp) > 0 {
			mk("both", func(g *u.Func) {
				clear(g)
				g.Params = []u.Param{obj([]u.Param{obj(lp)})}
				g.Results = []u.Result{robj(lr)}
				g.Variadic = true
			})
		}
	}
	return out
}

var encNames = []string{"pobj", "pnest", "pnest2", "psplit", "variadic", "pempty", "rout", "rnest", "rsplit", "both"}

func leavesLookup(r *h.Run) func(inst string) []u.PLeaf {
	return func(inst string) []u.PLeaf {
		if ct := r.M.CtorByInst(inst); ct != nil {
			return ct.P
		}
		if d := r.M.DecoByInst(inst); d != nil {
			return d.P
		}
		for _, st := range r.Steps {
			if st.Inst == inst && st.Op.Fn != nil {
				return st.Op.Fn.PLeaves()
			}
		}
		return nil
	}
}

func encodingMonitor(c *Ctx) []Violation {
	var vs []Violation
	ops := c.Ops()
	base := wiringText(c.Run, c.Step, leavesLookup(c.Run))
	// A rejected registration leaves the state as it was, so the search never
	// continues a history past one; what a rejected registration leaves behind
	// may depend on the encoding all the same. After a rejected Provide or
	// Decorate every Invoke of the alphabet is therefore tried as a
	// continuation, in the original and in every rewritten history.
	var probes []Op
	var probeBase []string
	if k := c.Step.Op.Kind; (k == h.OpProvide || k == h.OpDecorate) && !c.Step.V.OK && !c.Step.V.Escaped {
		for _, a := range c.Sc.Alphabet {
			if a.Kind == h.OpInvoke {
				probes = append(probes, a)
				r := h.Replay(c.Sc.Cfg, c.Sc.Plans, append(append(append([]Op{}, c.Sc.Prefix...), ops...), a))
				probeBase = append(probeBase, wiringText(r, r.Steps[len(r.Steps)-1], leavesLookup(r)))
			}
		}
	}
	try := func(variant []Op, what string) {
		full := append(append([]Op{}, c.Sc.Prefix...), variant...)
		r := h.Replay(c.Sc.Cfg, c.Sc.Plans, full)
		got := wiringText(r, r.Steps[len(r.Steps)-1], leavesLookup(r))
		c.Hit("encodings_compared")
		for i, p := range probes {
			rp := h.Replay(c.Sc.Cfg, c.Sc.Plans, append(append([]Op{}, full...), p))
			c.Hit("continuations_after_rejection_compared")
			if gp := wiringText(rp, rp.Steps[len(rp.Steps)-1], leavesLookup(rp)); gp != probeBase[i] {
				vs = append(vs, Violation{Rule: "C15/encoding-changes-behaviour", Detail: fmt.Sprintf("%s: after the rejected %s, %s observes %q with the rewritten signature but %q originally", what, c.Step.Op, p, clip(gp), clip(probeBase[i]))})
				return
			}
		}
		if got != base {
			vs = append(vs, Violation{Rule: "C15/encoding-changes-behaviour", Detail: fmt.Sprintf("%s: last op %s observes %q with the rewritten signature but %q originally", what, c.Step.Op, clip(got), clip(base))})
		}
	}
	// one function at a time
	for i, op := range ops {
		if op.Fn == nil {
			continue
		}
		encs := encodings(op.Fn)
		for _, name := range encNames {
			g, ok := encs[name]
			if !ok {
				continue
			}
			v := append([]Op{}, ops...)
			v[i].Fn = g
			try(v, fmt.Sprintf("op %d rewritten as %s (%s)", i, name, h.FuncText(g)))
			if len(vs) > 0 {
				return vs
			}
		}
	}
	// all functions switched together
	for _, name := range encNames {
		v := append([]Op{}, ops...)
		changed := false
		for i, op := range v {
			if op.Fn == nil {
				continue
			}
			if g, ok := encodings(op.Fn)[name]; ok {
				v[i].Fn = g
				changed = true
			}
		}
		if changed {
			try(v, "all functions rewritten as "+name)
			if len(vs) > 0 {
				return vs
			}
		}
	}
	return vs
}

func init() {
	explore.Register(&explore.Check{
		ID:    "C15",
		Rule:  "All base histories over all-succeeding functions up to the bounds; for each, every function rewritten one at a time in each equivalent encoding (positional <-> dig.In, nested dig.In, split dig.In, +variadic; results <-> dig.Out, nested / split dig.Out; Name/Group option <-> tag) and all functions rewritten together; verdict class, executed-function set and key->provenance wiring of the last op compared with the base history.",
		Units: c15Units,
		Assumptions: []string{
			"soft groups are excluded from splitting (field grouping is semantically relevant for them, C11); faults excluded (execution order unspecified)",
		},
	})
}

func c15Units(tier string) []Unit {
	q := quick(tier)
	var units []Unit
	d, b := 5, explore.Budget{Provides: 3, Decorates: 1, Invokes: 1, Rejected: 1}
	if !q {
		d, b = 6, explore.Budget{Provides: 4, Decorates: 1, Invokes: 2, Rejected: 1}
	}
	add := func(name string, cfg h.Config, a alpha) {
		units = append(units, Unit{Sc: &Scenario{Name: name, Cfg: cfg, Prefix: prefixChild, Alphabet: a.ops(), Depth: d, Budget: b, Monitors: []explore.Monitor{encodingMonitor}}})
	}
	sc := []int{0, 1}
	add("positional", h.Config{}, alpha{scopes: sc, ctors: []*uFunc{pA, pB, pC, pBn}, export: !q, decos: []*uFunc{dA, dAB}, invokes: []*uFunc{iA, iB, iC, iBn}})
	add("names-groups", h.Config{}, alpha{scopes: sc, ctors: []*uFunc{pA, pBn, fG1, fFl2, pM, pG}, invokes: []*uFunc{iO, iG, iC, iBn}})
	add("options-on-several-results", h.Config{}, alpha{scopes: sc, ctors: []*uFunc{pABn, pABg, pA, pBn}, invokes: []*uFunc{qAn, iBn, iA, iG, iGB}})
	add("objects", h.Config{}, alpha{scopes: sc, ctors: []*uFunc{pA, pCo, pM, pABo}, decos: []*uFunc{dG}, invokes: []*uFunc{iO, iO2, iC}})
	add("duplicates-and-cycles", h.Config{}, alpha{scopes: sc, ctors: []*uFunc{pA, pA2, rAB, rBC, rCA, pABo}, invokes: []*uFunc{iA, iB}})
	// a provider shadowed in a child by one that closes a cycle through an
	// existing consumer of the key (the consumer registered before or after
	// the child came to see it)
	add("shadowing-cycles", h.Config{}, alpha{scopes: sc, ctors: []*uFunc{pA, pB, rAB, pCb}, invokes: []*uFunc{iA, iB}})
	add("defer/zero-parameter-functions", h.Config{Defer: true}, alpha{scopes: sc, ctors: []*uFunc{rAB, pB, pA}, invokes: []*uFunc{i0, iA}})
	add("failing-first-parameter", h.Config{}, alpha{scopes: sc, ctors: []*uFunc{pA, pAd, pBd, pCb}, invokes: []*uFunc{iBA, iCA}})
	add("two-groups-in-one-object", h.Config{}, alpha{scopes: sc, ctors: []*uFunc{pGG, fAgC, fH}, invokes: []*uFunc{iC}})
	add("same-type-two-names-cycles", h.Config{}, alpha{scopes: sc, ctors: []*uFunc{pA, pBaa, rAnB, pAn}, invokes: []*uFunc{iB}})
	// a multi-key decorator rejected because a later one of its keys is
	// already decorated: nothing of it stays, in any encoding of its results
	units = append(units, Unit{Sc: &Scenario{Name: "decorator-conflicts", Prefix: prefixChild, Alphabet: alpha{scopes: sc, ctors: []*uFunc{pA, pB}, decos: []*uFunc{dBonly, dAB}, invokes: []*uFunc{iA, iB}}.ops(),
		Depth: 5, Budget: explore.Budget{Provides: 2, Decorates: 2, Invokes: 1, Rejected: 1}, Monitors: []explore.Monitor{encodingMonitor}}})
	if !q {
		add("defer/positional", h.Config{Defer: true}, alpha{scopes: sc, ctors: []*uFunc{pA, pB, pC, rAB}, export: true, decos: []*uFunc{dA}, invokes: []*uFunc{iA, iC}})
	}
	return units
}

var (
	pABo = u.F("pABo", "", "A,B")
	pABn = u.F("pABn", "", "A,B", u.Name("n"))  // the Name option applies to every result
	pABg = u.F("pABg", "", "A,B", u.Group("g")) // and so does Group
)

var dBonly = u.F("dBonly", "B", "B")

var (
	pBd = u.F("pBd", "D", "B") // B whose dependency D nobody provides
	iBA = u.F("iBA", "B,A", "")
	iCA = u.F("iCA", "C,A", "")
)
