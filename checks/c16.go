package checks

import (
	"fmt"
	"sort"
	"strings"

	"verif/explore"
	h "verif/harness"
	u "verif/universe"
)

// C16 — registration order and verification timing do not matter (style D:
// every linearisation of every configuration, Defer off and on in lock-step).

type c16Tree struct {
	name    string
	parents []int // parents[i] = parent of scope i+1
}

type c16Atom struct {
	op Op
}

type c16Config struct {
	tree  c16Tree
	atoms []Op
}

var c16Probes = []*uFunc{iA, iB, iC, iD, iG, iGB, iBn}

func c16Pool(tree c16Tree, specs []*uFunc, decos []*uFunc) []Op {
	var pool []Op
	n := len(tree.parents) + 1
	for _, f := range specs {
		for s := 0; s < n; s++ {
			pool = append(pool, provide(s, f.With(fmt.Sprintf("%s.s%d", f.ID, s))))
			if s != 0 {
				pool = append(pool, provide(s, f.With(fmt.Sprintf("%s.s%dx", f.ID, s), u.Export)))
			}
		}
	}
	for _, f := range decos {
		for s := 0; s < n; s++ {
			pool = append(pool, decorate(s, f.With(fmt.Sprintf("%s.s%d", f.ID, s))))
		}
	}
	return pool
}

func combos(n, k int) [][]int {
	var out [][]int
	var rec func(start int, cur []int)
	rec = func(start int, cur []int) {
		if len(cur) == k {
			out = append(out, append([]int{}, cur...))
			return
		}
		for i := start; i < n; i++ {
			rec(i+1, append(cur, i))
		}
	}
	rec(0, nil)
	return out
}

func c16Configs(tier string) []c16Config {
	q := quick(tier)
	var cfgs []c16Config
	add := func(tree c16Tree, specs, decos []*uFunc, sizes []int) {
		pool := c16Pool(tree, specs, decos)
		for _, k := range sizes {
			for _, cb := range combos(len(pool), k) {
				c := c16Config{tree: tree}
				for _, i := range cb {
					c.atoms = append(c.atoms, pool[i])
				}
				cfgs = append(cfgs, c)
			}
		}
	}
	one := c16Tree{"child", []int{0}}
	chain := c16Tree{"chain", []int{0, 1}}
	fork := c16Tree{"fork", []int{0, 0}}
	// group consumers / feeders whose graph nodes are not at index 0, plain chains, a decorator
	add(one, []*uFunc{pA, rCA, rAgB, fBg, pDd}, []*uFunc{dA}, []int{2, 3, 4})
	add(one, []*uFunc{pA, pB, pG, fG1, pBn}, []*uFunc{dA, dG}, []int{3})
	// group consumers whose group field sits in a nested parameter object, with
	// dependants of their result (so that some other node comes first)
	add(one, []*uFunc{pGnest, pD, fG1, pDd}, nil, []int{2, 3})
	// a cycle through a group whose consumer comes first (its group node is node 0)
	add(one, []*uFunc{rAgB, rBgC, rCA, pGG, fAgC}, nil, []int{2, 3})
	if q {
		add(chain, []*uFunc{rCA, rAgB, fBg, pDd}, nil, []int{3})
		add(fork, []*uFunc{pA, pB, fG1, pG}, nil, []int{3})
	} else {
		add(one, []*uFunc{pA, pB, pG, fG1, pBn}, []*uFunc{dA, dG}, []int{4})
		add(chain, []*uFunc{pA, rCA, rAgB, fBg, pDd}, []*uFunc{dA}, []int{3, 4})
		add(fork, []*uFunc{pA, pB, fG1, pG, rAgB, fBg}, []*uFunc{dA}, []int{3, 4})
	}
	return cfgs
}

// linearisations: every permutation of atoms with every legal placement of
// the scope-creation ops (a scope exists before any op targets it or one of
// its descendants; scopes are created in index order).
func (c c16Config) linearisations() [][]Op {
	type item struct {
		op      Op
		isScope bool
		scope   int // scope created (isScope) or targeted
	}
	var items []item
	for i, p := range c.tree.parents {
		items = append(items, item{op: scopeOp(p), isScope: true, scope: i + 1})
	}
	for _, a := range c.atoms {
		items = append(items, item{op: a, scope: a.Scope})
	}
	n := len(items)
	var out [][]Op
	used := make([]bool, n)
	cur := make([]int, 0, n)
	var rec func()
	rec = func() {
		if len(cur) == n {
			seq := make([]Op, n)
			for i, x := range cur {
				seq[i] = items[x].op
			}
			out = append(out, seq)
			return
		}
		created := 0 // number of scopes created so far (beyond root)
		for _, x := range cur {
			if items[x].isScope {
				created++
			}
		}
		for i := 0; i < n; i++ {
			if used[i] {
				continue
			}
			it := items[i]
			if it.isScope {
				if it.scope != created+1 {
					continue // index order
				}
			} else if it.scope > created {
				continue // target scope does not exist yet
			}
			used[i] = true
			cur = append(cur, i)
			rec()
			cur = cur[:len(cur)-1]
			used[i] = false
		}
	}
	rec()
	return out
}

type c16Obs struct {
	regs    map[string]string // atom id -> verdict class
	probes  []string
	anyCyc  bool
	allOK   bool
	history []string
}

func c16Run(cfg h.Config, seq []Op, nscopes int) c16Obs {
	r := h.NewRun(cfg)
	o := c16Obs{regs: map[string]string{}, allOK: true}
	for _, op := range seq {
		st := r.Apply(op)
		if st.V.Cycle {
			o.anyCyc = true
		}
		if op.Fn != nil {
			o.regs[op.Fn.ID] = st.V.Class()
			if !st.V.OK {
				o.allOK = false
			}
		}
	}
	// Which functions a *failing* Invoke executes before it fails depends on
	// the unspecified order in which independent dependencies are built
	// (§3.6-6), and so does what later probes still find to build. A failed
	// probe is therefore compared by its verdict class alone, and probes
	// after it by verdict class plus what the invoked function received.
	failedBefore := false
	for _, f := range c16Probes {
		for s := 0; s < nscopes; s++ {
			st := r.Apply(invoke(s, f))
			if st.V.Cycle {
				o.anyCyc = true
			}
			switch {
			case !st.V.OK:
				o.probes = append(o.probes, st.V.Class())
				failedBefore = true
			case failedBefore:
				txt := st.V.Class()
				for _, part := range strings.Split(wiringText(r, st, leavesLookup(r)), " ; ") {
					if strings.Contains(part, "enter "+specOf(st.Inst)+"(") {
						txt += " :: " + part[strings.Index(part, "enter "):]
					}
				}
				o.probes = append(o.probes, txt)
			default:
				o.probes = append(o.probes, wiringText(r, st, leavesLookup(r)))
			}
		}
	}
	o.history = h.HistoryText(r)
	return o
}

func seqText(seq []Op) string {
	var s []string
	for _, o := range seq {
		s = append(s, o.String())
	}
	return strings.Join(s, " ; ")
}

func c16Item(cfgs []c16Config) func(i int, stats map[string]int) []Violation {
	return func(i int, stats map[string]int) []Violation {
		c := cfgs[i]
		lins := c.linearisations()
		n := len(c.tree.parents) + 1
		var vs []Violation
		var ref *c16Obs
		var refSeq []Op
		var rejectedSeq, acceptedSeq []Op
		for _, seq := range lins {
			o0 := c16Run(h.Config{}, seq, n)
			o1 := c16Run(h.Config{Defer: true}, seq, n)
			stats["linearisations"]++
			if o0.allOK {
				acceptedSeq = seq
				if ref == nil {
					ref, refSeq = &o0, seq
				} else if strings.Join(ref.probes, "\n") != strings.Join(o0.probes, "\n") {
					d := firstDiff(ref.probes, o0.probes)
					vs = append(vs, Violation{Rule: "C16/order-changes-wiring", Detail: fmt.Sprintf("probe %d differs between registration orders [%s] and [%s]: %q vs %q", d, seqText(refSeq), seqText(seq), clip(ref.probes[d]), clip(o0.probes[d]))})
					return vs
				}
				stats["all_accepted_linearisations"]++
			} else {
				rejectedSeq = seq
			}
			// Defer on/off in lock-step on histories where no cycle is reported
			if !o0.anyCyc && !o1.anyCyc {
				stats["defer_compared"]++
				same := strings.Join(o0.probes, "\n") == strings.Join(o1.probes, "\n")
				for k, v := range o0.regs {
					if o1.regs[k] != v {
						same = false
					}
				}
				if !same {
					vs = append(vs, Violation{Rule: "C16/defer-changes-outcome", Detail: fmt.Sprintf("no cycle is reported in [%s] yet DeferAcyclicVerification changes an outcome: %v / %v", seqText(seq), sortedRegs(o0.regs), sortedRegs(o1.regs))})
					return vs
				}
			}
		}
		if acceptedSeq != nil && rejectedSeq != nil {
			vs = append(vs, Violation{Rule: "C16/order-changes-acceptance", Detail: fmt.Sprintf("all registrations accepted in order [%s] but one rejected in order [%s]", seqText(acceptedSeq), seqText(rejectedSeq))})
		}
		if acceptedSeq == nil {
			stats["configs_never_all_accepted"]++
		}
		return vs
	}
}

func sortedRegs(m map[string]string) []string {
	var s []string
	for k, v := range m {
		s = append(s, k+"="+v)
	}
	sort.Strings(s)
	return s
}

func firstDiff(a, b []string) int {
	for i := range a {
		if i >= len(b) || a[i] != b[i] {
			return i
		}
	}
	return 0
}

func init() {
	explore.Register(&explore.Check{
		ID:    "C16",
		Rule:  "Every configuration (scope tree with <=3 scopes and a set of <=4 registrations incl. group consumers/feeders, exported constructors and decorators), every linearisation of it (all permutations of the registrations x all legal positions of the scope-creation ops), each followed by the same probe sweep (Invoke of 7 keys from every scope), with DeferAcyclicVerification off and on; an item is one configuration.",
		Units: c16Units,
		Assumptions: []string{
			"configurations in which no linearisation accepts every registration are outside the claim and only counted",
		},
	})
}

func c16Units(tier string) []Unit {
	cfgs := c16Configs(tier)
	return []Unit{{En: &explore.Enum{
		Name: "configurations",
		N:    len(cfgs),
		Run:  c16Item(cfgs),
		Describe: func(i int) string {
			return fmt.Sprintf("tree=%s atoms=[%s] linearisations=%d", cfgs[i].tree.name, seqText(cfgs[i].atoms), len(cfgs[i].linearisations()))
		},
	}}}
}
