package checks

import (
	"fmt"

	"go.uber.org/dig"
	"regexp"
	"sort"
	"strings"

	"verif/explore"
	h "verif/harness"
	u "verif/universe"
)

// Differential (style D) machinery shared by C06, C14, C15, C16.

// obsText is the canonical observation of one step: verdict class, the flat
// execution log with provenance (tokens without serials), DOT text. The text
// of String() is not compared (map iteration order), only that it returned.
func obsText(r *h.Run, st *h.Step) string {
	var b strings.Builder
	b.WriteString(st.V.Class())
	for _, e := range r.Events(st) {
		b.WriteString(" | " + h.EventText(e))
	}
	if st.Dot != "" {
		b.WriteString(" | dot:" + st.Dot)
	}
	return b.String()
}

// wiringText is an encoding-independent observation of one step: verdict
// class, and per executed function the sorted list of (key, tokens) it
// received — by key, not by position.
func wiringText(r *h.Run, st *h.Step, leavesOf func(inst string) []u.PLeaf) string {
	var parts []string
	for _, e := range r.Events(st) {
		if e.Kind != u.EvEnter {
			if e.Kind == u.EvExit {
				parts = append(parts, fmt.Sprintf("exit %s:%s", specOf(e.Fn), e.Outcome))
			}
			continue
		}
		ls := leavesOf(e.Fn)
		var as []string
		for _, a := range e.Args {
			k := "?"
			if a.Leaf < len(ls) {
				k = ls[a.Leaf].Key.String()
			}
			var ts []string
			for _, t := range a.Toks {
				if t.IsZero() {
					ts = append(ts, "zero")
				} else {
					ts = append(ts, fmt.Sprintf("%s/%d.%d", specOf(t.Fn), t.Slot, t.Elem))
				}
			}
			sort.Strings(ts)
			as = append(as, k+"="+strings.Join(ts, "|"))
		}
		sort.Strings(as)
		parts = append(parts, fmt.Sprintf("enter %s(%s)", specOf(e.Fn), strings.Join(as, ",")))
	}
	sort.Strings(parts) // execution order between independent dependencies is unspecified
	return st.V.Class() + " :: " + strings.Join(parts, " ; ")
}

// specOf strips encoding suffixes ("~enc") and keeps the instance number.
func specOf(inst string) string {
	if i := strings.IndexByte(inst, '~'); i >= 0 {
		j := strings.IndexByte(inst, '#')
		if j > i {
			return inst[:i] + inst[j:]
		}
		return inst[:i]
	}
	return inst
}

var reSnap = regexp.MustCompile(`snap=-?\d+`)

// reEmptyProv matches an empty entry of a providers map in the fingerprint
// (" <key>=>[]"): the rollback after a cycle rejection leaves such entries.
var reEmptyProv = regexp.MustCompile(` [^ \n]*=>\[\]`)

// fpModuloEmptyEntries drops empty providers entries from a fingerprint.
func fpModuloEmptyEntries(fp string) string { return reEmptyProv.ReplaceAllString(fp, "") }

// fpModuloSnap drops graphHolder.snap from a fingerprint: it is written by
// Snapshot() at the start of every provide() for every affected scope before
// Rollback() can read it, so its value between API calls is dead.
func fpModuloSnap(fp string) string { return reSnap.ReplaceAllString(fp, "snap=_") }

// fpEquivalent compares the fingerprint of the container without the rejected
// call (base) with the one after it (with), modulo snap and modulo a scope
// whose isVerifiedAcyclic went from true to false: that flag is only read by
// Invoke, where false merely forces a re-verification of a graph that the
// base side's true flag asserts to be acyclic and that is otherwise equal.
func fpEquivalent(base, with string) bool {
	base, with = fpModuloSnap(base), fpModuloSnap(with)
	if base == with {
		return true
	}
	lb, lw := strings.Split(base, "\n"), strings.Split(with, "\n")
	if len(lb) != len(lw) {
		return false
	}
	for i := range lb {
		if lb[i] == lw[i] {
			continue
		}
		if strings.HasPrefix(lb[i], "scope ") && strings.Replace(lw[i], " acyc=false ", " acyc=true ", 1) == lb[i] {
			continue
		}
		return false
	}
	return true
}

// noTraceMonitor (C06, reused by C14): after a rejected Provide/Decorate the
// container must behave for every continuation of length <= contDepth exactly
// like the container on which the call was never made. alwaysCompare forces
// the lock-step comparison even when the fingerprints are equal.
func noTraceMonitor(prefix string, contDepth int, alwaysCompare bool, contOps []Op) func(c *Ctx) []Violation {
	return func(c *Ctx) []Violation {
		st := c.Step
		if st.Op.Kind != h.OpProvide && st.Op.Kind != h.OpDecorate {
			return nil
		}
		if st.V.OK || st.V.Bad {
			return nil
		}
		c.Hit("rejected_registrations")
		var vs []Violation
		if st.LogTo > st.LogFrom {
			vs = append(vs, Violation{Rule: prefix + "/rejected-function-executed", Detail: st.Op.String()})
		}
		if st.V.Escaped {
			// a panic instead of an error is C14's concern; the no-trace comparison still applies
			c.Hit("rejected_by_panic")
		}
		ops := append(append([]Op{}, c.Sc.Prefix...), c.Ops()...)
		base := ops[:len(ops)-1]
		with := ops
		rb := h.Replay(c.Sc.Cfg, c.Sc.Plans, base)
		fpb, fpw := rb.Fingerprint(), c.Run.Fingerprint()
		fpEqual := fpEquivalent(fpb, fpw)
		depthHere := contDepth
		if fpEqual {
			c.Hit("rejected_fingerprint_equal")
			if !alwaysCompare {
				return vs
			}
		} else if !alwaysCompare && fpEquivalent(fpModuloEmptyEntries(fpb), fpModuloEmptyEntries(fpw)) {
			// the only difference is an empty providers entry left by the
			// rollback: nothing in the current code can observe it, so the
			// quick tier compares single-op continuations only (which is
			// where a change that makes it observable shows first)
			c.Hit("rejected_fingerprint_differs_by_empty_entries")
			depthHere = 1
		} else {
			c.Hit("rejected_fingerprint_differs")
		}
		conts := append([]Op{}, contOps...)
		if contOps == nil {
			conts = append(conts, c.Sc.Alphabet...)
		}
		conts = append(conts, st.Op) // the rejected call itself, again
		conts = append(conts, Op{Kind: h.OpVisualize})
		for s := 0; s < len(rb.Scopes); s++ {
			conts = append(conts, Op{Kind: h.OpString, Scope: s})
		}
		var explore func(prefixOps []Op, depth int) *Violation
		compared := 0
		explore = func(cont []Op, depth int) *Violation {
			for _, op := range conts {
				if op.Scope >= len(rb.Scopes)+countScopeOps(cont) {
					continue
				}
				seq := append(append([]Op{}, cont...), op)
				a := h.Replay(c.Sc.Cfg, c.Sc.Plans, append(append([]Op{}, base...), seq...))
				b := h.Replay(c.Sc.Cfg, c.Sc.Plans, append(append([]Op{}, with...), seq...))
				sa, sb := a.Steps[len(a.Steps)-1], b.Steps[len(b.Steps)-1]
				compared++
				oa, ob := obsText(a, sa), obsText(b, sb)
				if oa != ob {
					var txt []string
					for _, o := range seq {
						txt = append(txt, o.String())
					}
					return &Violation{Rule: prefix + "/rejected-call-left-a-trace", Detail: fmt.Sprintf("after rejected %s the continuation [%s] yields %q, but %q on the container where the call was never made", st.Op, strings.Join(txt, " ; "), clip(ob), clip(oa))}
				}
				// state-equality pruning: once both containers are in
				// equivalent states again, deeper continuations agree
				if depth > 1 && (alwaysCompare || !fpEquivalent(a.Fingerprint(), b.Fingerprint())) {
					if v := explore(seq, depth-1); v != nil {
						return v
					}
				}
			}
			return nil
		}
		if v := explore(nil, depthHere); v != nil {
			vs = append(vs, *v)
		}
		c.Stats["continuations_compared"] += compared
		return vs
	}
}

func countScopeOps(ops []Op) int {
	n := 0
	for _, o := range ops {
		if o.Kind == h.OpScope {
			n++
		}
	}
	return n
}

func clip(s string) string {
	if len(s) > 300 {
		return s[:300] + "…"
	}
	return s
}

// ---------------------------------------------------------------- C06

var (
	rNoRes   = u.F("rNoRes", "A", "")
	rErrOnly = u.F("rErrOnly", "", "error")
	rNameGrp = u.F("rNameGrp", "", "A", u.Name("n"), u.Group("g"))
	rBackq   = u.F("rBackq", "", "A", u.Name("a`b"))
	rBadAs   = u.F("rBadAs", "", "B", u.As("IAB"))
	rDup     = u.F("rDup", "", "A,A")
	rDupN    = u.F("rDupN", "", "B,{C;{B}}")
	rSelf    = u.F("rSelf", "A", "A")
	rSelfG   = u.F("rSelfG", "{A*g}", "A", u.Group("g"))
	rSelfGB  = u.F("rSelfGB", "{B*g};A", "{B+g}")
	rBadTagP = &u.Func{ID: "rBadTagP", Params: []u.Param{{Kind: u.PObject, Fields: []u.Param{{Kind: u.PSingle, Type: "A", Tag: `optional:"maybe"`}}}}, Results: []u.Result{{Kind: u.RSingle, Type: "B"}}}
	rBadTagR = &u.Func{ID: "rBadTagR", Results: []u.Result{{Kind: u.RObject, Fields: []u.Result{{Kind: u.RGroup, Type: "A", Group: "g", Tag: `group:"g,bogus"`}}}}}
	dB       = u.F("dB", "B", "B")
	dAA      = u.F("dAA", "A", "A,A")
	dNoRes   = u.F("dNoRes", "A", "")
	dBadG    = u.F("dBadG", "{A*g}", "{A+g}")       // decorating a group with a single value
	dAG      = u.F("dAG", "A,{A*g}", "A,{[A]!1+g}") // a single key, then a group
	dGA      = u.F("dGA", "{A*g},A", "{[A]!1+g},A") // a group, then a single key
	dBGo     = u.F("dBGo", "B", "{B;[A]!1+g}")      // both in one result object
)

func infoVariant(f *uFunc) *uFunc { return f.With(f.ID+"i", u.WithInfo) }

func init() {
	explore.Register(&explore.Check{
		ID:    "C06",
		Rule:  "At every state of a context BFS every op of a rejection alphabet (unsuitable function, invalid options/tags, duplicate key incl. nested, cycle in the target scope / only in a descendant / through Export, rejected constructors with group parameters, decorator conflicts on the first and second key, repeated key, invalid decorator; with Export and FillProvideInfo variants) is tried; every rejected call is compared with the state without it (fingerprint, else lock-step over all continuations).",
		Units: c06Units,
		Assumptions: []string{
			"quick tier: equal fingerprints (modulo graphHolder.snap, a dead value between API calls) imply indistinguishable futures; thorough tier compares continuations regardless",
		},
	})
}

func c06Units(tier string) []Unit {
	q := quick(tier)
	var units []Unit
	cont, always := 2, false
	d := 4
	if !q {
		always = true
		d = 5
	}
	add := func(name string, cfg h.Config, prefix []Op, a alpha, conts alpha, depth int, b explore.Budget) {
		mons := []explore.Monitor{noTraceMonitor("C06", cont, always, conts.ops()), silentOpsMonitor("C06")}
		units = append(units, Unit{Sc: &Scenario{Name: name, Cfg: cfg, Prefix: prefix, Alphabet: a.ops(), Depth: depth, Budget: b, Monitors: mons}})
	}
	bud := explore.Budget{Provides: 4, Decorates: 2, Invokes: 1, Rejected: 0}
	for _, def := range []bool{false, true} {
		cfg := h.Config{Defer: def}
		tag := fmt.Sprintf("/defer=%v", def)
		// 1. invalid functions / options / tags / duplicates over a small context
		sc2 := []int{0, 1}
		a := alpha{scopes: sc2, ctors: []*uFunc{pA, pB, rNoRes, rErrOnly, rNameGrp, rBackq, rBadAs, rDup, rDupN, rBadTagP, rBadTagR, infoVariant(rDup), infoVariant(pA), rGrpThenDup}, export: true,
			invokes: []*uFunc{iA, iB}}
		add("invalid-and-duplicate"+tag, cfg, prefixChild, a, alpha{scopes: sc2, ctors: []*uFunc{pA, pB, pC}, export: true, invokes: []*uFunc{iA, iB, iC, iG}}, d, bud)
		// values that are not functions at all (rejected before anything is parsed)
		last := units[len(units)-1].Sc
		for _, s := range sc2 {
			for _, k := range []h.OpKind{h.OpProvide, h.OpDecorate} {
				last.Alphabet = append(last.Alphabet,
					Op{Kind: k, Scope: s, RawDesc: "nil", Raw: func(*h.Run) (interface{}, []dig.ProvideOption) { return nil, nil }},
					Op{Kind: k, Scope: s, RawDesc: "42", Raw: func(*h.Run) (interface{}, []dig.ProvideOption) { return 42, nil }})
			}
		}
		// 2. cycles: in the target scope, only in a descendant, through Export; group params
		ring := alpha{scopes: sc2, ctors: []*uFunc{rAB, rBC, rCA, rSelf, rSelfG, rAgB, rBgC, pC}, export: true,
			invokes: []*uFunc{iA, iB, iC}}
		ringConts := alpha{scopes: sc2, ctors: []*uFunc{pA, pB, pC, rAB, rBC, rCA, rBgC}, export: true, invokes: []*uFunc{iA, iB, iC, iGB}}
		if def && q {
			continue // under DeferAcyclicVerification no Provide is rejected for a cycle
		}
		add("cycles"+tag, cfg, prefixChild, ring, ringConts, d, explore.Budget{Provides: 4, Invokes: 1, Rejected: 0})
		shadow := alpha{scopes: sc2, ctors: []*uFunc{pA, pB, rAB, pC}, invokes: []*uFunc{iA, iB}}
		add("cycles-over-inherited-keys"+tag, cfg, prefixChild, shadow, alpha{scopes: sc2, ctors: []*uFunc{pA, pB, rAB}, invokes: []*uFunc{iA, iB, iAo, iC}}, d, explore.Budget{Provides: 4, Invokes: 1, Rejected: 0})
		sc3 := []int{0, 1, 2}
		ring3 := alpha{scopes: sc3, ctors: []*uFunc{rAB, rBC, rCA}, export: true, invokes: []*uFunc{iA}}
		ring3Conts := alpha{scopes: sc3, ctors: []*uFunc{pA, pB, pC, rAB, rBC, rCA}, invokes: []*uFunc{iA, iB, iC}}
		add("cycles-fork3"+tag, cfg, prefixFork, ring3, ring3Conts, d, explore.Budget{Provides: 3, Invokes: 1, Rejected: 0})
		add("cycles-chain3"+tag, cfg, prefixChain, ring3, ring3Conts, d, explore.Budget{Provides: 3, Invokes: 1, Rejected: 0})
		// 3. decorators: conflict on first / second key, repeated key, invalid;
		// single keys and whole groups, alone and mixed in one decorator
		// (DeferAcyclicVerification plays no part in Decorate: quick runs it once)
		if !def || !q {
			deco := alpha{scopes: sc2, ctors: []*uFunc{pA, pB}, decos: []*uFunc{dA, dB, dAB, dAA, dNoRes, infoVariant(dAB)},
				invokes: []*uFunc{iA, iB}}
			decoConts := alpha{scopes: sc2, ctors: []*uFunc{pA, pB}, decos: []*uFunc{dA, dB}, invokes: []*uFunc{iA, iB}}
			add("decorator-conflicts"+tag, cfg, prefixChild, deco, decoConts, d, explore.Budget{Provides: 2, Decorates: 3, Invokes: 1, Rejected: 0})
			decoG := alpha{scopes: sc2, ctors: []*uFunc{pA, fG1}, decos: []*uFunc{dA, dG, dBadG, dAG, dGA, dBGo},
				invokes: []*uFunc{iA, iG}}
			decoGConts := alpha{scopes: sc2, ctors: []*uFunc{pA, pB, fG1}, decos: []*uFunc{dA, dB, dG}, invokes: []*uFunc{iA, iB, iG}}
			add("decorator-conflicts-groups"+tag, cfg, prefixChild, decoG, decoGConts, d, explore.Budget{Provides: 2, Decorates: 3, Invokes: 1, Rejected: 0})
		}
	}
	// 4. late child scope: rejected registrations before / after scope creation
	late := alpha{scopes: []int{0, 1}, ctors: []*uFunc{rAB, rBC, rCA, rAgB, rBgC}, export: true, invokes: []*uFunc{iA, iB}, scopeOps: []int{0}}
	lateConts := alpha{scopes: []int{0, 1}, ctors: []*uFunc{pA, pB, pC, rAB, rBC, rCA, rBgC}, export: true, invokes: []*uFunc{iA, iB, iC}, scopeOps: []int{0}}
	add("cycles-late-scope", h.Config{}, nil, late, lateConts, d+1, explore.Budget{Scopes: 1, Provides: 4, Invokes: 1, Rejected: 0})
	return units
}

var rGrpThenDup = u.F("rGrpThenDup", "", "{A+g;B}") // a group member declared before a plain value that may clash
