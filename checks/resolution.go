package checks

import (
	"fmt"
	"sort"
	"strings"

	h "verif/harness"
	"verif/model"
	u "verif/universe"
)

// logIndex indexes the whole execution log of a run.
type execRec struct {
	fn      string
	exec    int
	enter   int
	exit    int // -1 if none
	outcome u.Beh
	results [][]u.Tok
	args    []u.ArgObs
}

type logIndex struct {
	recs  []*execRec
	byKey map[string]*execRec
}

func indexLog(log []u.Event) *logIndex {
	li := &logIndex{byKey: map[string]*execRec{}}
	for i, e := range log {
		k := fmt.Sprintf("%s.%d", e.Fn, e.Exec)
		switch e.Kind {
		case u.EvEnter:
			r := &execRec{fn: e.Fn, exec: e.Exec, enter: i, exit: -1, args: e.Args}
			li.recs = append(li.recs, r)
			li.byKey[k] = r
		case u.EvExit:
			if r := li.byKey[k]; r != nil {
				r.exit = i
				r.outcome = e.Outcome
				r.results = e.Results
			}
		}
	}
	return li
}

// okBefore: did execution (fn,exec) exit successfully before log position pos?
func (li *logIndex) okBefore(fn string, exec int, pos int) bool {
	r := li.byKey[fmt.Sprintf("%s.%d", fn, exec)]
	return r != nil && r.exit >= 0 && r.exit < pos && r.outcome == u.BehOK
}

// okExecs: successful executions of fn that exited before pos.
func (li *logIndex) okExecs(fn string, pos int) []*execRec {
	var out []*execRec
	for _, r := range li.recs {
		if r.fn == fn && r.exit >= 0 && r.exit < pos && r.outcome == u.BehOK {
			out = append(out, r)
		}
	}
	return out
}

func (li *logIndex) doneBefore(pos int) func(string) bool {
	return func(inst string) bool { return len(li.okExecs(inst, pos)) > 0 }
}

// consumer describes the function behind an Enter event.
type consumer struct {
	inst   string
	scope  int // scope its dependencies resolve from
	leaves []u.PLeaf
	skip   model.DecoSet
	kind   string // ctor | deco | invoked
}

func identify(c *Ctx, inst string) (consumer, bool) {
	m := c.Run.M
	if ct := m.CtorByInst(inst); ct != nil {
		return consumer{inst: inst, scope: ct.Orig, leaves: ct.P, skip: model.DecoSet{}, kind: "ctor"}, true
	}
	if d := m.DecoByInst(inst); d != nil {
		return consumer{inst: inst, scope: d.Scope, leaves: d.P, skip: model.DecoSet{d: true}, kind: "deco"}, true
	}
	if inst == c.Step.Inst && c.Step.Op.Kind == h.OpInvoke {
		return consumer{inst: inst, scope: c.Step.Op.Scope, leaves: c.Step.Op.Fn.PLeaves(), skip: model.DecoSet{}, kind: "invoked"}, true
	}
	return consumer{}, false
}

func tokList(ts []u.Tok) string {
	var s []string
	for _, t := range ts {
		s = append(s, t.String())
	}
	sort.Strings(s)
	return "[" + strings.Join(s, " ") + "]"
}

// acceptableSingle lists the suppliers a consumer may legitimately receive
// key k from (DESIGN.md §3.6-1: while a decorator whose dependency closure
// contains the consumer is being built, dig skips it and looks further out).
func acceptableSingle(m *model.Model, cons consumer, k u.Key, inClosure model.DecoSet) []model.Sup {
	var out []model.Sup
	for _, d := range m.DecoChain(cons.scope, k) {
		if cons.skip[d] {
			continue
		}
		out = append(out, model.Sup{D: d})
		if !inClosure[d] {
			return out
		}
	}
	return append(out, model.Sup{C: m.Prov(cons.scope, k)})
}

// tokenFromSup: is tok the value produced for key k by supplier s in a
// successful execution that completed before pos?
func tokenFromSup(li *logIndex, s model.Sup, k u.Key, tok u.Tok, pos int) bool {
	if s.D != nil {
		return tok.Fn == s.D.Inst && tok.Slot == s.D.Slot(k) && li.okBefore(tok.Fn, tok.Exec, pos)
	}
	for _, ct := range s.C {
		if tok.Fn != ct.Inst {
			continue
		}
		for _, slot := range ct.Provides(k) {
			if slot == tok.Slot && li.okBefore(tok.Fn, tok.Exec, pos) {
				return true
			}
		}
	}
	return false
}

// membersOf: tokens produced for group key k by the successful executions of
// feeder ct that completed before pos.
func membersOf(li *logIndex, ct *model.Ctor, k u.Key, pos int) []u.Tok {
	var out []u.Tok
	for _, r := range li.okExecs(ct.Inst, pos) {
		for _, slot := range ct.Provides(k) {
			if slot < len(r.results) {
				out = append(out, r.results[slot]...)
			}
		}
	}
	return out
}

func sameMultiset(a, b []u.Tok) bool {
	if len(a) != len(b) {
		return false
	}
	cnt := map[int64]int{}
	for _, t := range a {
		cnt[t.Serial]++
	}
	for _, t := range b {
		cnt[t.Serial]--
	}
	for _, n := range cnt {
		if n != 0 {
			return false
		}
	}
	return true
}

func subMultiset(a, b []u.Tok) bool { // a ⊆ b
	cnt := map[int64]int{}
	for _, t := range b {
		cnt[t.Serial]++
	}
	for _, t := range a {
		cnt[t.Serial]--
		if cnt[t.Serial] < 0 {
			return false
		}
	}
	return true
}

// resolutionMonitor judges every argument of every user function executed by
// the last op against the reference model (C01's oracle, reused by the other
// resolution properties on their own alphabets). prefix names the property.
func resolutionMonitor(prefix string) func(c *Ctx) []Violation {
	return func(c *Ctx) []Violation {
		var vs []Violation
		st := c.Step
		evs := c.Run.Events(st)
		if st.Op.Kind != h.OpInvoke {
			if len(evs) > 0 {
				vs = append(vs, Violation{Rule: prefix + "/non-invoke-op-executed-user-code", Detail: fmt.Sprintf("%s ran %s", st.Op, evs[0].Fn)})
			}
			return vs
		}
		m := c.Run.M
		li := indexLog(c.Run.RT.Log)
		bad := func(rule, format string, a ...interface{}) {
			vs = append(vs, Violation{Rule: prefix + "/" + rule, Detail: fmt.Sprintf(format, a...)})
		}
		invokedRuns := 0
		closureCache := map[string]model.DecoSet{}
		for i := st.LogFrom; i < st.LogTo; i++ {
			e := c.Run.RT.Log[i]
			if e.Kind != u.EvEnter {
				continue
			}
			cons, ok := identify(c, e.Fn)
			if !ok {
				bad("unregistered-function-executed", "%s executed during %s but is not an accepted registration", e.Fn, st.Op)
				continue
			}
			if cons.kind == "invoked" {
				invokedRuns++
			}
			inCl, ok := closureCache[cons.inst]
			if !ok {
				inCl = m.InClosure(cons.inst)
				closureCache[cons.inst] = inCl
			}
			for _, a := range e.Args {
				if a.Leaf >= len(cons.leaves) {
					bad("arg-shape", "%s received more arguments than declared", e.Fn)
					continue
				}
				l := cons.leaves[a.Leaf]
				if !l.Key.IsGroup() {
					tok := a.Toks[0]
					cands := acceptableSingle(m, cons, l.Key, inCl)
					if tok.IsZero() {
						c.Hit("zero_args")
						if !l.Optional {
							bad("zero-for-required", "%s received a zero value for required %v", e.Fn, l.Key)
							continue
						}
						if len(inCl) == 0 && m.OptionalZero(cons.scope, l, cons.skip, li.doneBefore(i)) == model.No {
							bad("zero-for-available-optional", "%s received a zero value for optional %v although its constructor and all of that constructor's dependencies are available", e.Fn, l.Key)
						}
						continue
					}
					okTok := false
					for _, s := range cands {
						if tokenFromSup(li, s, l.Key, tok, i) {
							okTok = true
							break
						}
					}
					c.Hit("single_args_checked")
					if len(cands) > 0 && cands[0].D != nil {
						c.Hit("decorated_deliveries")
					}
					if !okTok {
						bad("wrong-provenance", "%s (resolving from s%d) received %v for %v; expected the successful output of %s", e.Fn, cons.scope, tok, l.Key, supText(cands))
					}
					continue
				}
				// value groups
				c.Hit("group_args_checked")
				var deco *model.Deco
				chainOnStack := true
				for _, d := range m.DecoChain(cons.scope, l.Key) {
					if cons.skip[d] {
						continue
					}
					if deco == nil {
						deco = d
					}
					if !inCl[d] {
						chainOnStack = false
						break
					}
				}
				if deco != nil {
					// nearest decorator's output, unless every decorator of the
					// chain may be on the stack (then also the undecorated view)
					var want []u.Tok
					for _, r := range li.okExecs(deco.Inst, i) {
						if s := deco.Slot(l.Key); s >= 0 && s < len(r.results) {
							want = append(want, r.results[s]...)
						}
					}
					if sameMultiset(a.Toks, want) && len(li.okExecs(deco.Inst, i)) > 0 {
						continue
					}
					if !chainOnStack {
						bad("group-not-decorated", "%s received %s for decorated group %v; expected the output of %s: %s", e.Fn, tokList(a.Toks), l.Key, deco.Inst, tokList(want))
						continue
					}
					// fall through to the undecorated expectation (abstain on mismatch)
					continue
				}
				var all []u.Tok
				missingFeeder := ""
				for _, ct := range m.Feed(cons.scope, l.Key) {
					ms := membersOf(li, ct, l.Key, i)
					if len(li.okExecs(ct.Inst, i)) == 0 {
						missingFeeder = ct.Inst
					}
					all = append(all, ms...)
				}
				if l.Soft {
					if !subMultiset(a.Toks, all) {
						bad("soft-group-foreign-member", "%s received %s for soft group %v; only members of already executed visible feeders are allowed: %s", e.Fn, tokList(a.Toks), l.Key, tokList(all))
					}
					continue
				}
				if missingFeeder != "" {
					bad("group-feeder-not-run", "%s consumed group %v but visible feeder %s had not completed", e.Fn, l.Key, missingFeeder)
					continue
				}
				if !sameMultiset(a.Toks, all) {
					bad("group-multiset", "%s (resolving from s%d) received %s for group %v; expected exactly %s", e.Fn, cons.scope, tokList(a.Toks), l.Key, tokList(all))
				}
			}
		}
		if st.V.OK && invokedRuns != 1 {
			bad("invoked-function-count", "Invoke succeeded but the invoked function ran %d times", invokedRuns)
		}
		if !st.V.OK && invokedRuns > 1 {
			bad("invoked-function-count", "the invoked function ran %d times", invokedRuns)
		}
		return vs
	}
}

func supText(cands []model.Sup) string {
	var s []string
	for _, c := range cands {
		switch {
		case c.D != nil:
			s = append(s, "decorator "+c.D.Inst)
		case len(c.C) > 0:
			for _, ct := range c.C {
				s = append(s, "constructor "+ct.Inst)
			}
		default:
			s = append(s, "(nothing: no supplier)")
		}
	}
	return strings.Join(s, " or ")
}
