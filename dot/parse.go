// Package dot is a recursive-descent parser for the subset of the DOT
// language that dig.Visualize emits (digraph, subgraph cluster_N, attribute
// statements, node and edge statements with attribute lists, quoted ids,
// HTML-like labels with balanced angle brackets). Graphviz is not installed;
// "syntactically valid DOT" is decided against this grammar.
package dot

import (
	"fmt"
	"strings"
)

type Attrs map[string]string

type Node struct {
	ID    string
	Attrs Attrs
}

type Edge struct {
	From, To string
	Attrs    Attrs
}

type Cluster struct {
	Name  string
	Attrs Attrs // label, color
	Nodes []Node
}

type Graph struct {
	Attrs    Attrs
	Nodes    []Node // top-level node statements
	Edges    []Edge // all edges
	Clusters []Cluster
}

type tok struct {
	kind string // id, str, html, sym
	val  string
}

func lex(s string) ([]tok, error) {
	var out []tok
	i := 0
	for i < len(s) {
		c := s[i]
		switch {
		case c == ' ' || c == '\t' || c == '\n' || c == '\r':
			i++
		case c == '"':
			j := i + 1
			var b strings.Builder
			for j < len(s) && s[j] != '"' {
				if s[j] == '\\' && j+1 < len(s) {
					b.WriteByte(s[j+1])
					j += 2
					continue
				}
				b.WriteByte(s[j])
				j++
			}
			if j >= len(s) {
				return nil, fmt.Errorf("unterminated string at %d", i)
			}
			out = append(out, tok{"str", b.String()})
			i = j + 1
		case c == '<':
			depth := 0
			j := i
			for j < len(s) {
				if s[j] == '<' {
					depth++
				} else if s[j] == '>' {
					depth--
					if depth == 0 {
						break
					}
				}
				j++
			}
			if j >= len(s) {
				return nil, fmt.Errorf("unbalanced HTML label at %d", i)
			}
			out = append(out, tok{"html", s[i+1 : j]})
			i = j + 1
		case c == '-' && i+1 < len(s) && s[i+1] == '>':
			out = append(out, tok{"sym", "->"})
			i += 2
		case strings.ContainsRune("{}[];=,", rune(c)):
			out = append(out, tok{"sym", string(c)})
			i++
		case isIDChar(c):
			j := i
			for j < len(s) && isIDChar(s[j]) {
				j++
			}
			out = append(out, tok{"id", s[i:j]})
			i = j
		default:
			return nil, fmt.Errorf("unexpected character %q at %d", c, i)
		}
	}
	return out, nil
}

func isIDChar(c byte) bool {
	return c == '_' || c == '.' || (c >= '0' && c <= '9') || (c >= 'a' && c <= 'z') || (c >= 'A' && c <= 'Z')
}

type parser struct {
	toks []tok
	pos  int
}

func (p *parser) peek() tok {
	if p.pos < len(p.toks) {
		return p.toks[p.pos]
	}
	return tok{"eof", ""}
}

func (p *parser) next() tok { t := p.peek(); p.pos++; return t }

func (p *parser) expectSym(s string) error {
	t := p.next()
	if t.kind != "sym" || t.val != s {
		return fmt.Errorf("token %d: expected %q, got %s %q", p.pos-1, s, t.kind, t.val)
	}
	return nil
}

func (p *parser) isSym(s string) bool { t := p.peek(); return t.kind == "sym" && t.val == s }

func isValue(t tok) bool { return t.kind == "id" || t.kind == "str" || t.kind == "html" }

func (p *parser) attrList() (Attrs, error) {
	a := Attrs{}
	if err := p.expectSym("["); err != nil {
		return nil, err
	}
	for !p.isSym("]") {
		k := p.next()
		if k.kind != "id" {
			return nil, fmt.Errorf("token %d: attribute name expected, got %s %q", p.pos-1, k.kind, k.val)
		}
		if err := p.expectSym("="); err != nil {
			return nil, err
		}
		v := p.next()
		if !isValue(v) {
			return nil, fmt.Errorf("token %d: attribute value expected, got %s %q", p.pos-1, v.kind, v.val)
		}
		a[k.val] = v.val
		if p.isSym(",") || p.isSym(";") {
			p.next()
		}
	}
	p.next()
	return a, nil
}

// stmtList parses statements until the closing brace.
func (p *parser) stmtList(g *Graph, cl *Cluster) error {
	for {
		if p.isSym("}") {
			p.next()
			return nil
		}
		t := p.next()
		switch {
		case t.kind == "eof":
			return fmt.Errorf("unexpected end of input: missing }")
		case t.kind == "sym" && t.val == ";":
			continue
		case t.kind == "id" && t.val == "subgraph":
			if cl != nil {
				return fmt.Errorf("nested subgraph")
			}
			name := p.next()
			if name.kind != "id" {
				return fmt.Errorf("subgraph name expected")
			}
			if err := p.expectSym("{"); err != nil {
				return err
			}
			c := Cluster{Name: name.val, Attrs: Attrs{}}
			if err := p.stmtList(g, &c); err != nil {
				return err
			}
			g.Clusters = append(g.Clusters, c)
		case t.kind == "id" && (t.val == "graph" || t.val == "node" || t.val == "edge") && p.isSym("["):
			a, err := p.attrList()
			if err != nil {
				return err
			}
			for k, v := range a {
				g.Attrs[t.val+"."+k] = v
			}
		case isValue(t) && t.kind != "html":
			switch {
			case p.isSym("="):
				p.next()
				v := p.next()
				if !isValue(v) {
					return fmt.Errorf("token %d: value expected after =", p.pos-1)
				}
				if cl != nil {
					cl.Attrs[t.val] = v.val
				} else {
					g.Attrs[t.val] = v.val
				}
			case p.isSym("->"):
				p.next()
				to := p.next()
				if !isValue(to) || to.kind == "html" {
					return fmt.Errorf("token %d: edge target expected", p.pos-1)
				}
				e := Edge{From: t.val, To: to.val, Attrs: Attrs{}}
				if p.isSym("[") {
					a, err := p.attrList()
					if err != nil {
						return err
					}
					e.Attrs = a
				}
				g.Edges = append(g.Edges, e)
			default:
				n := Node{ID: t.val, Attrs: Attrs{}}
				if p.isSym("[") {
					a, err := p.attrList()
					if err != nil {
						return err
					}
					n.Attrs = a
				}
				if cl != nil {
					cl.Nodes = append(cl.Nodes, n)
				} else {
					g.Nodes = append(g.Nodes, n)
				}
			}
			if p.isSym(";") {
				p.next()
			}
		default:
			return fmt.Errorf("token %d: unexpected %s %q", p.pos-1, t.kind, t.val)
		}
	}
}

// Parse parses one digraph.
func Parse(s string) (*Graph, error) {
	toks, err := lex(s)
	if err != nil {
		return nil, err
	}
	p := &parser{toks: toks}
	t := p.next()
	if t.kind != "id" || t.val != "digraph" {
		return nil, fmt.Errorf("digraph expected")
	}
	if p.peek().kind == "id" || p.peek().kind == "str" {
		p.next()
	}
	if err := p.expectSym("{"); err != nil {
		return nil, err
	}
	g := &Graph{Attrs: Attrs{}}
	if err := p.stmtList(g, nil); err != nil {
		return nil, err
	}
	if p.peek().kind != "eof" {
		return nil, fmt.Errorf("trailing tokens after }")
	}
	return g, nil
}
