package explore

import (
	"bufio"
	"encoding/json"
	"fmt"
	"io"
	"os"
	"os/exec"
	"path/filepath"
	"sort"
	"strconv"
	"strings"
	"sync"
	"time"
)

// ---------------------------------------------------------------- processes

type proc struct {
	cmd   *exec.Cmd
	in    io.WriteCloser
	lines chan string
	errb  *tail
}

type tail struct {
	mu  sync.Mutex
	buf []byte
}

func (t *tail) Write(p []byte) (int, error) {
	t.mu.Lock()
	defer t.mu.Unlock()
	t.buf = append(t.buf, p...)
	if len(t.buf) > 1<<16 {
		t.buf = t.buf[:1<<16] // keep the head: the first lines name the fatal error
	}
	return len(p), nil
}

func (t *tail) FirstLine() string {
	t.mu.Lock()
	defer t.mu.Unlock()
	for _, l := range strings.Split(string(t.buf), "\n") {
		l = strings.TrimSpace(l)
		if l != "" {
			if len(l) > 200 {
				l = l[:200]
			}
			return l
		}
	}
	return ""
}

func (m *Master) spawn() *proc {
	cmd := exec.Command(m.Self, "worker", m.Check.ID, m.Tier)
	cmd.Env = append(os.Environ(), "GOMAXPROCS=1", "GOTRACEBACK=single")
	in, _ := cmd.StdinPipe()
	out, _ := cmd.StdoutPipe()
	p := &proc{cmd: cmd, in: in, lines: make(chan string, 1024), errb: &tail{}}
	cmd.Stderr = p.errb
	if err := cmd.Start(); err != nil {
		Fatalf("cannot start worker: %v", err)
	}
	go func() {
		sc := bufio.NewScanner(out)
		sc.Buffer(make([]byte, 1<<20), 1<<26)
		for sc.Scan() {
			p.lines <- sc.Text()
		}
		close(p.lines)
	}()
	return p
}

func (p *proc) kill() {
	if p == nil {
		return
	}
	p.in.Close()
	p.cmd.Process.Kill()
	p.cmd.Wait()
}

// horizon: a worker silent for this long on one job is declared non-terminating.
const horizon = 180 * time.Second

// ---------------------------------------------------------------- master

type Found struct {
	Unit   int
	Hist   []int // BFS path, or {item} for enumerations
	Rule   string
	Detail string
}

type Master struct {
	Check    *Check
	Tier     string
	Self     string
	Workers  int
	Deadline time.Time
	MaxFound int
	// unitDeadline: the current unit's share of the budget (see Run)
	unitDeadline time.Time
	Verbose      bool

	units []Unit
	mu    sync.Mutex

	States                       int
	Transitions                  int
	Items                        int
	Classes                      map[string]int
	Stats                        map[string]int
	Found                        []Found
	Deaths                       int
	Exhaustive                   bool
	Aborted                      bool
	DedupCompared, DedupMismatch int
	UnitReports                  []map[string]interface{}
	EventfulTr                   int
	distinctNT                   map[string]bool
}

type job struct {
	unit     int
	hist     []int // BFS
	from, to int   // enum range
	enum     bool
	judge    bool
}

type jobOut struct {
	trans []TransResult
	found []Found
	stats map[string]int
	text  []string
	died  bool
	// skipped: the time budget ran out before the job was handed to a worker
	skipped bool
}

func (m *Master) addStats(s map[string]int) {
	for k, v := range s {
		m.Stats[k] += v
	}
}

// runJob runs one job on *pp, restarting the worker process as needed.
func (m *Master) runJob(pp **proc, j job) jobOut {
	out := jobOut{stats: map[string]int{}}
	careful := false
	from := j.from
	for {
		if *pp == nil {
			*pp = m.spawn()
		}
		p := *pp
		var line string
		c := 0
		if careful {
			c = 1
		}
		switch {
		case j.judge:
			line = fmt.Sprintf("J %d %s\n", j.unit, histString(j.hist))
		case j.enum:
			line = fmt.Sprintf("E %d %d %d %d\n", j.unit, c, from, j.to)
		default:
			line = fmt.Sprintf("H %d %d %d %s\n", j.unit, c, from, histString(j.hist))
		}
		io.WriteString(p.in, line)
		lastT := -1
		done := false
		reason := ""
	read:
		for {
			select {
			case l, ok := <-p.lines:
				if !ok {
					reason = "process killed: " + p.errb.FirstLine()
					break read
				}
				f := strings.SplitN(l, " ", 6)
				switch f[0] {
				case "T":
					lastT, _ = strconv.Atoi(f[1])
				case "R":
					op, _ := strconv.Atoi(f[1])
					evs, _ := strconv.Atoi(f[3])
					tr := TransResult{Op: op, Key: f[2], Evs: evs, Class: f[4]}
					if tr.Key == "-" {
						tr.Key = ""
					}
					json.Unmarshal([]byte(f[5]), &tr.Viol)
					out.trans = append(out.trans, tr)
				case "V":
					f = strings.SplitN(l, " ", 3)
					i, _ := strconv.Atoi(f[1])
					var vs []Violation
					json.Unmarshal([]byte(f[2]), &vs)
					for _, v := range vs {
						hist := []int{i}
						if j.judge {
							hist = j.hist
						}
						out.found = append(out.found, Found{Unit: j.unit, Hist: hist, Rule: v.Rule, Detail: v.Detail})
					}
				case "L":
					json.Unmarshal([]byte(l[2:]), &out.text)
				case "S":
					var s map[string]int
					json.Unmarshal([]byte(l[2:]), &s)
					for k, v := range s {
						out.stats[k] += v
					}
				case "D":
					done = true
					break read
				}
			case <-time.After(horizon):
				reason = fmt.Sprintf("non-termination: no progress for %v", horizon)
				break read
			}
		}
		if done {
			return out
		}
		// the worker died or hung
		p.kill()
		*pp = nil
		if j.judge {
			out.died = true
			out.found = append(out.found, Found{Unit: j.unit, Hist: j.hist, Rule: "process-killed", Detail: reason})
			return out
		}
		if !careful {
			careful = true
			out = jobOut{stats: map[string]int{}}
			continue
		}
		m.mu.Lock()
		m.Deaths++
		m.mu.Unlock()
		if j.enum {
			out.found = append(out.found, Found{Unit: j.unit, Hist: []int{lastT}, Rule: "process-killed", Detail: reason})
		} else {
			out.found = append(out.found, Found{Unit: j.unit, Hist: append(append([]int{}, j.hist...), lastT), Rule: "process-killed", Detail: reason})
			out.trans = append(out.trans, TransResult{Op: lastT, Class: "process-killed"})
		}
		if lastT < 0 {
			return out
		}
		m.mu.Lock()
		tooMany := m.tooManyDeaths(m.Deaths)
		if tooMany {
			m.Aborted = true
		}
		m.mu.Unlock()
		if tooMany {
			return out // the run is being stopped early (see expired)
		}
		from = lastT + 1
	}
}

// parallel runs jobs over the worker pool and returns results in job order.
func (m *Master) parallel(jobs []job) []jobOut {
	outs := make([]jobOut, len(jobs))
	ch := make(chan int)
	var wg sync.WaitGroup
	n := m.Workers
	if n > len(jobs) {
		n = len(jobs)
	}
	for w := 0; w < n; w++ {
		wg.Add(1)
		go func() {
			defer wg.Done()
			var p *proc
			for i := range ch {
				outs[i] = m.runJob(&p, jobs[i])
			}
			p.kill()
		}()
	}
	for i := range jobs {
		if i%64 == 0 && m.expired() {
			for k := i; k < len(jobs); k++ {
				outs[k].skipped = true
			}
			break
		}
		ch <- i
	}
	close(ch)
	wg.Wait()
	return outs
}

func (m *Master) expired() bool {
	if !m.Deadline.IsZero() && time.Now().After(m.Deadline) {
		return true
	}
	if !m.unitDeadline.IsZero() && time.Now().After(m.unitDeadline) {
		return true
	}
	// Early stop: once the verdict is settled (many findings), or worker
	// processes keep dying, further exploration only costs time. The run is
	// then reported as not exhaustive.
	m.mu.Lock()
	deaths := m.Deaths
	m.mu.Unlock()
	if len(m.Found) > 2000 || m.tooManyDeaths(deaths) {
		m.Aborted = true
		return true
	}
	return false
}

// tooManyDeaths: where a worker death is itself a violation (C05, C14) a few
// hundred are tolerated (the known finding alone accounts for ~200); elsewhere
// a death only means "cannot be judged here" and 60 of them end the run.
func (m *Master) tooManyDeaths(deaths int) bool {
	if m.Check.DeathIsViolation {
		return deaths > 400
	}
	return deaths > 60
}

// maxStatesPerUnit bounds the number of distinct states one BFS unit may
// keep (VERIF_MAX_STATES overrides the default of 20 million); a unit that
// reaches it stops at the level boundary and is reported as not exhaustive.
func maxStatesPerUnit() int {
	if v, err := strconv.Atoi(os.Getenv("VERIF_MAX_STATES")); err == nil && v > 0 {
		return v
	}
	return 20_000_000
}

func (m *Master) bfs(ui int, sc *Scenario) {
	seen := map[string]bool{}
	frontier := [][]int{nil}
	frontierKeys := []string{""}
	// dedup self-check: for a deterministic 1/16 subset of state keys the
	// signature (op, class, successor key) of the representative's expansion
	// is remembered; sampled histories that were pruned as duplicates of such a
	// state are expanded as well and must show the same signature.
	sigOf := map[string]string{}
	type dupSample struct {
		path []int
		key  string
	}
	var dups []dupSample
	rep := map[string]interface{}{"unit": sc.Name, "kind": "bfs", "alphabet": len(sc.Alphabet), "depth_bound": sc.Depth, "config": sc.Cfg.String()}
	states, trans, completed := 1, 0, 0
	exhaustive := true
	for depth := 0; depth < sc.Depth && len(frontier) > 0; depth++ {
		if m.expired() {
			exhaustive = false
			break
		}
		jobs := make([]job, len(frontier))
		for i, hst := range frontier {
			jobs[i] = job{unit: ui, hist: hst}
		}
		// dispatch in slices so that a deadline can stop a huge level
		var outs []jobOut
		const slice = 4096
		cut := false
		for s := 0; s < len(jobs); s += slice {
			e := s + slice
			if e > len(jobs) {
				e = len(jobs)
			}
			outs = append(outs, m.parallel(jobs[s:e])...)
			if m.expired() && e < len(jobs) {
				cut = true
				break
			}
		}
		var next [][]int
		var nextKeys []string
		for i, o := range outs {
			if o.skipped {
				cut = true
				continue
			}
			m.addStats(o.stats)
			m.Found = append(m.Found, o.found...)
			if k := frontierKeys[i]; k != "" && subsetHash(k)%16 == 0 {
				sigOf[k] = transSignature(o.trans)
			}
			for _, tr := range o.trans {
				trans++
				m.Classes[tr.Class]++
				if tr.Evs > 0 {
					m.EventfulTr++
				}
				path := append(append([]int{}, frontier[i]...), tr.Op)
				for _, v := range tr.Viol {
					m.Found = append(m.Found, Found{Unit: ui, Hist: path, Rule: v.Rule, Detail: v.Detail})
				}
				if tr.Class == "process-killed" {
					continue
				}
				if tr.Key != "" {
					if seen[tr.Key] {
						if len(dups) < 400 && subsetHash(tr.Key)%16 == 0 && subsetHash(fmt.Sprint(path))%4 == 0 {
							dups = append(dups, dupSample{path, tr.Key})
						}
						continue
					}
					seen[tr.Key] = true
				}
				states++
				next = append(next, path)
				nextKeys = append(nextKeys, tr.Key)
			}
		}
		if cut {
			exhaustive = false
			break
		}
		completed = depth + 1
		frontier = next
		frontierKeys = nextKeys
		if states > maxStatesPerUnit() && depth+1 < sc.Depth && len(frontier) > 0 {
			// memory cap: the seen set and the frontier live in the master
			exhaustive = false
			rep["state_cap_hit"] = true
			break
		}
		if m.Verbose {
			fmt.Fprintf(os.Stderr, "  [%s] depth %d: states=%d transitions=%d frontier=%d found=%d\n", sc.Name, completed, states, trans, len(frontier), len(m.Found))
		}
	}
	if m.Aborted {
		exhaustive = false
	}
	// dedup self-check
	if len(dups) > 0 && !m.Aborted {
		var jobs []job
		var keys []string
		for _, d := range dups {
			if _, ok := sigOf[d.key]; ok {
				jobs = append(jobs, job{unit: ui, hist: d.path})
				keys = append(keys, d.key)
			}
		}
		for i, o := range m.parallel(jobs) {
			if o.skipped {
				continue
			}
			m.DedupCompared++
			if got := transSignature(o.trans); got != sigOf[keys[i]] {
				m.DedupMismatch++
				fmt.Fprintf(os.Stderr, "DEDUP SELF-CHECK FAILED in %s: history %v was pruned as a duplicate of state %s but expands differently\n", sc.Name, jobs[i].hist, keys[i])
			}
		}
	}
	rep["states"] = states
	rep["transitions"] = trans
	rep["depth_completed"] = completed
	rep["exhaustive"] = exhaustive
	rep["frontier_left"] = len(frontier)
	m.States += states
	m.Transitions += trans
	if !exhaustive {
		m.Exhaustive = false
	}
	m.UnitReports = append(m.UnitReports, rep)
}

// transSignature canonically renders the expansion of one state.
func transSignature(ts []TransResult) string {
	var parts []string
	for _, t := range ts {
		parts = append(parts, fmt.Sprintf("%d:%s:%s", t.Op, t.Class, t.Key))
	}
	sort.Strings(parts)
	return strings.Join(parts, ",")
}

func (m *Master) enumerate(ui int, en *Enum) {
	chunk := en.N / (m.Workers * 8)
	if chunk < 1 {
		chunk = 1
	}
	// small chunks, so that a time budget that runs out is honoured within
	// seconds (a job in flight is never interrupted)
	if chunk > 400 {
		chunk = 400
	}
	var jobs []job
	for s := 0; s < en.N; s += chunk {
		e := s + chunk
		if e > en.N {
			e = en.N
		}
		jobs = append(jobs, job{unit: ui, enum: true, from: s, to: e})
	}
	done := 0
	exhaustive := true
	const slice = 64
	for s := 0; s < len(jobs); s += slice {
		if m.expired() {
			exhaustive = false
			break
		}
		e := s + slice
		if e > len(jobs) {
			e = len(jobs)
		}
		for i, o := range m.parallel(jobs[s:e]) {
			if o.skipped {
				exhaustive = false
				continue
			}
			m.addStats(o.stats)
			m.Found = append(m.Found, o.found...)
			done += jobs[s+i].to - jobs[s+i].from
		}
	}
	m.Items += done
	m.Transitions += done
	m.States += done
	if !exhaustive || m.Aborted {
		exhaustive = false
		m.Exhaustive = false
	}
	m.UnitReports = append(m.UnitReports, map[string]interface{}{"unit": en.Name, "kind": "enumeration", "items": en.N, "items_done": done, "exhaustive": exhaustive})
	if m.Verbose {
		fmt.Fprintf(os.Stderr, "  [%s] items=%d found=%d\n", en.Name, done, len(m.Found))
	}
}

// judgeFresh judges one path / item in a fresh worker process.
func (m *Master) judgeFresh(ui int, hist []int) jobOut {
	var p *proc
	o := m.runJob(&p, job{unit: ui, hist: hist, judge: true})
	p.kill()
	return o
}

func hasRule(fs []Found, rule string) bool {
	for _, f := range fs {
		if f.Rule == rule {
			return true
		}
	}
	return false
}

// minimize greedily deletes ops that are not needed for the rule to fire at
// the last op.
func (m *Master) minimize(f Found) Found {
	if m.units[f.Unit].Sc == nil || len(f.Hist) <= 1 {
		return f
	}
	cur := append([]int{}, f.Hist...)
	for i := len(cur) - 2; i >= 0; i-- {
		cand := append(append([]int{}, cur[:i]...), cur[i+1:]...)
		if o := m.judgeFresh(f.Unit, cand); hasRule(o.found, f.Rule) {
			cur = cand
		}
	}
	f.Hist = cur
	return f
}

// ---------------------------------------------------------------- known findings

type Known struct {
	ID       string   `json:"id"`
	Property string   `json:"property"`
	Rule     string   `json:"rule"`
	Core     []string `json:"core"`
	What     string   `json:"what"`
}

type knownFile struct {
	Findings []Known  `json:"findings"`
	Fixed    []string `json:"fixed"`
}

func loadKnown(path, prop string) []Known {
	b, err := os.ReadFile(path)
	if err != nil {
		return nil
	}
	var kf knownFile
	if json.Unmarshal(b, &kf) != nil {
		return nil
	}
	var out []Known
	for _, k := range kf.Findings {
		if k.Property == prop {
			out = append(out, k)
		}
	}
	return out
}

func (k Known) matches(rule string, text []string) bool {
	if k.Rule != rule {
		return false
	}
	for _, c := range k.Core {
		ok := false
		for _, l := range text {
			if strings.Contains(l, c) {
				ok = true
				break
			}
		}
		if !ok {
			return false
		}
	}
	return true
}

// ---------------------------------------------------------------- run

type Replay struct {
	Property string   `json:"property"`
	Tier     string   `json:"tier"`
	Unit     int      `json:"unit"`
	UnitName string   `json:"unit_name"`
	Rule     string   `json:"rule"`
	Detail   string   `json:"detail"`
	Hist     []int    `json:"hist"`
	Text     []string `json:"history"`
	Repro    string   `json:"reproduced"`
}

// Run explores every unit, verifies and reports findings, writes evidence.
// Returns the process exit code.
func (m *Master) Run(verifDir string, seed int) int {
	start := time.Now()
	m.units = m.Check.AllUnits(m.Tier)
	m.Classes = map[string]int{}
	m.Stats = map[string]int{}
	m.Exhaustive = true
	if m.MaxFound == 0 {
		m.MaxFound = 3
	}
	for ui, un := range m.units {
		// thorough tier: every unit gets an equal share of what is left of the
		// time budget (unused time is passed on), so that a huge early unit
		// cannot leave the later ones unexplored; in the quick tier the budget
		// is only a safety net
		if !m.Deadline.IsZero() && m.Tier == "thorough" {
			left := time.Until(m.Deadline)
			if left < 0 {
				left = 0
			}
			m.unitDeadline = time.Now().Add(left / time.Duration(len(m.units)-ui))
		}
		if un.Sc != nil {
			m.bfs(ui, un.Sc)
		} else {
			m.enumerate(ui, un.En)
		}
	}
	// thorough tier, second pass: the history units that were cut by their
	// share are explored again from scratch with the time that is left, shared
	// among them alone (a breadth-first level costs about ten times the
	// previous one, so starting over wastes little); their first reports are
	// replaced.
	if m.Tier == "thorough" && !m.Deadline.IsZero() && !m.Aborted {
		var cut []int
		for ui, un := range m.units {
			if un.Sc == nil {
				continue
			}
			for _, rep := range m.UnitReports {
				if rep["unit"] == un.Sc.Name && rep["kind"] == "bfs" && rep["exhaustive"] == false {
					cut = append(cut, ui)
				}
			}
		}
		for k, ui := range cut {
			left := time.Until(m.Deadline)
			if left < 20*time.Second || m.Aborted {
				break
			}
			name := m.units[ui].Sc.Name
			for i, rep := range m.UnitReports {
				if rep["unit"] == name && rep["kind"] == "bfs" {
					m.States -= rep["states"].(int)
					m.Transitions -= rep["transitions"].(int)
					m.UnitReports = append(m.UnitReports[:i], m.UnitReports[i+1:]...)
					break
				}
			}
			m.unitDeadline = time.Now().Add(left / time.Duration(len(cut)-k))
			m.bfs(ui, m.units[ui].Sc)
			m.UnitReports[len(m.UnitReports)-1]["second_pass"] = true
		}
		m.Exhaustive = !m.Aborted
		for _, rep := range m.UnitReports {
			if rep["exhaustive"] == false {
				m.Exhaustive = false
			}
		}
	}

	// group findings by rule, shortest first (BFS order is already by depth per unit)
	byRule := map[string][]Found{}
	var rules []string
	for _, f := range m.Found {
		if f.Rule == "process-killed" && !m.Check.DeathIsViolation {
			continue
		}
		if _, ok := byRule[f.Rule]; !ok {
			rules = append(rules, f.Rule)
		}
		byRule[f.Rule] = append(byRule[f.Rule], f)
	}
	sort.Strings(rules)
	known := loadKnown(filepath.Join(verifDir, "known_findings.json"), m.Check.ID)
	replayDir := filepath.Join(evidenceDir(verifDir), "replays")
	os.MkdirAll(replayDir, 0o755)
	violations := 0
	knownMatched := map[string]int{}
	var reported []string
	for _, rule := range rules {
		fs := byRule[rule]
		sort.SliceStable(fs, func(i, j int) bool { return len(fs[i].Hist) < len(fs[j].Hist) })
		// every finding must be attributed; minimisation is costly, so
		// findings are processed until MaxFound unknown ones were reported
		// for this rule, and all are tested against known findings by their
		// (unminimised) text first.
		unknownReported := 0
		seenMin := map[string]bool{}
		examined := 0
		for _, f := range fs {
			if unknownReported >= m.MaxFound {
				break
			}
			// A finding whose unminimised history does not contain a known
			// finding's core cannot match it after minimisation either, so it
			// always gets the full treatment. Findings that do contain one are
			// confirmed by re-execution and minimisation for the first 8 per rule; beyond that
			// they are attributed to the known finding by containment.
			if pre := m.describe(f); examined >= 8 {
				attributed := false
				for _, k := range known {
					if k.matches(f.Rule, pre) {
						knownMatched[k.ID]++
						attributed = true
						break
					}
				}
				if attributed {
					continue
				}
			}
			examined++
			// determinism discipline: 5 fresh processes must agree
			repro := 0
			var text []string
			reruns := 5
			if examined > 3 {
				reruns = 1 // the first three findings of a rule get the full 5x treatment
			}
			for k := 0; k < reruns; k++ {
				o := m.judgeFresh(f.Unit, f.Hist)
				if hasRule(o.found, f.Rule) {
					repro++
				}
				if len(o.text) > 0 {
					text = o.text
				}
			}
			g := f
			if repro == reruns {
				repro = 5
				g = m.minimize(f)
				if o := m.judgeFresh(g.Unit, g.Hist); len(o.text) > 0 {
					text = o.text
				} else if o.died {
					text = m.describe(g)
				}
			}
			key := fmt.Sprint(g.Unit, g.Hist)
			if seenMin[key] {
				continue
			}
			seenMin[key] = true
			if text == nil {
				text = m.describe(g)
			}
			matched := false
			if repro == 5 {
				for _, k := range known {
					if k.matches(g.Rule, text) {
						knownMatched[k.ID]++
						matched = true
						break
					}
				}
			}
			if matched {
				continue
			}
			unknownReported++
			violations++
			rp := Replay{Property: m.Check.ID, Tier: m.Tier, Unit: g.Unit, UnitName: m.units[g.Unit].Name(), Rule: g.Rule, Detail: g.Detail, Hist: g.Hist, Text: text, Repro: fmt.Sprintf("%d/5 fresh processes", repro)}
			if repro != 5 {
				rp.Rule = g.Rule + " [outcome-depends-on-process-state: reproduced in only " + rp.Repro + "]"
			}
			name := fmt.Sprintf("%s-%s-%d.json", m.Check.ID, sanitize(g.Rule), unknownReported)
			path := filepath.Join(replayDir, name)
			b, _ := json.MarshalIndent(rp, "", "  ")
			os.WriteFile(path, b, 0o644)
			reported = append(reported, fmt.Sprintf("VIOLATION property=%s replay=%s", m.Check.ID, path))
			fmt.Fprintf(os.Stderr, "--- %s rule=%s (%s)\n    %s\n    %s\n", m.Check.ID, rp.Rule, rp.Repro, g.Detail, strings.Join(text, "\n    "))
		}
	}
	for _, k := range known {
		if knownMatched[k.ID] > 0 {
			fmt.Printf("KNOWN-FINDING: property=%s %s: %s\n", m.Check.ID, k.ID, k.What)
		}
	}
	for _, l := range reported {
		fmt.Println(l)
	}
	m.writeEvidence(verifDir, seed, time.Since(start).Seconds(), violations, knownMatched)
	fmt.Fprintf(os.Stderr, "%s %s: units=%d states=%d transitions=%d exhaustive=%v violations=%d known=%v deaths=%d wall=%.1fs\n",
		m.Check.ID, m.Tier, len(m.units), m.States, m.Transitions, m.Exhaustive, violations, knownMatched, m.Deaths, time.Since(start).Seconds())
	if violations > 0 {
		return 1
	}
	if m.DedupMismatch > 0 {
		return 2 // infrastructure error: pruning is not sound for this tree, nothing is claimed
	}
	return 0
}

func (m *Master) describe(f Found) []string {
	un := m.units[f.Unit]
	if un.Sc == nil {
		return []string{un.En.Describe(f.Hist[0])}
	}
	out := []string{un.Sc.Cfg.String()}
	for _, op := range un.Sc.Prefix {
		out = append(out, op.String())
	}
	for _, x := range f.Hist {
		if x >= 0 && x < len(un.Sc.Alphabet) {
			out = append(out, un.Sc.Alphabet[x].String())
		}
	}
	return out
}

// evidenceDir: /verif/evidence, unless VERIF_EVIDENCE_DIR redirects it (used
// when the checks are run against deliberately broken trees, so that the
// committed evidence is not overwritten).
func evidenceDir(verifDir string) string {
	if d := os.Getenv("VERIF_EVIDENCE_DIR"); d != "" {
		return d
	}
	return filepath.Join(verifDir, "evidence")
}

func sanitize(s string) string {
	r := strings.NewReplacer("/", "_", " ", "_", ":", "_", "[", "", "]", "")
	s = r.Replace(s)
	if len(s) > 60 {
		s = s[:60]
	}
	return s
}

func (m *Master) writeEvidence(verifDir string, seed int, wall float64, violations int, knownMatched map[string]int) {
	// samples: a few explored histories with their observations
	var samples []interface{}
	for ui, un := range m.units {
		if len(samples) >= 4 {
			break
		}
		if un.Sc != nil {
			// take the lexicographically first complete path of maximal length that is allowed
			hist := m.samplePath(ui, un.Sc)
			o := m.judgeFresh(ui, hist)
			samples = append(samples, map[string]interface{}{"unit": un.Sc.Name, "history": o.text})
		} else if un.En.N > 0 {
			samples = append(samples, map[string]interface{}{"unit": un.En.Name, "items": []string{un.En.Describe(0), un.En.Describe(un.En.N / 2), un.En.Describe(un.En.N - 1)}})
		}
	}
	if len(samples) == 0 {
		samples = append(samples, "no units")
	}
	classes := map[string]int{}
	for k, v := range m.Classes {
		classes[k] = v
	}
	nontrivial := m.EventfulTr + m.Items
	cov := map[string]interface{}{
		"states":                        m.States,
		"transitions":                   m.Transitions,
		"traces_validated_against_impl": m.Transitions,
		"samples":                       samples,
		"exhaustive":                    m.Exhaustive,
		"evaluations":                   m.Transitions,
		"distinct_nontrivial":           nontrivial,
		"rule":                          m.Check.Rule + " Every transition is executed on the real dig container (replay of the path on a fresh container plus one op) and judged by the oracles; distinct_nontrivial counts transitions during which at least one user function executed plus enumeration items.",
		"units":                         m.UnitReports,
		"distinct_outcome_classes":      classes,
		"oracle_stats":                  m.Stats,
		"worker_deaths":                 m.Deaths,
		"known_findings_matched":        knownMatched,
		"workers":                       m.Workers,
		"stopped_early":                 m.Aborted,
		"dedup_selfcheck":               map[string]int{"pruned_duplicates_re_expanded": m.DedupCompared, "mismatches": m.DedupMismatch},
	}
	ev := map[string]interface{}{
		"property_id": m.Check.ID,
		"tier":        m.Tier,
		"seed":        seed,
		"level":       "model_checking",
		"coverage":    cov,
		"assumptions": append([]string{
			"bounded: the verdict covers exactly the histories / inputs enumerated within the bounds listed under coverage.units",
			"trusted: Go runtime and reflect; the harness's generic function body, tokens and execution log; the reference model where the oracle uses it",
		}, m.Check.Assumptions...),
		"wall_s":     wall,
		"violations": violations,
	}
	b, _ := json.MarshalIndent(ev, "", " ")
	os.MkdirAll(evidenceDir(verifDir), 0o755)
	os.WriteFile(filepath.Join(evidenceDir(verifDir), m.Check.ID+".json"), b, 0o644)
}

// samplePath walks the first allowed op at each depth (in-process on a model
// of budgets only: it asks a worker to expand, so a fatal path cannot hurt).
func (m *Master) samplePath(ui int, sc *Scenario) []int {
	var hist []int
	var p *proc
	defer func() { p.kill() }()
	for d := 0; d < sc.Depth; d++ {
		o := m.runJob(&p, job{unit: ui, hist: hist})
		if len(o.trans) == 0 {
			break
		}
		// prefer a transition that executed user code, else the last one
		pick := o.trans[len(o.trans)-1]
		for _, tr := range o.trans {
			if tr.Evs > 0 && tr.Class == "ok" {
				pick = tr
			}
		}
		if pick.Class == "process-killed" {
			break
		}
		hist = append(hist, pick.Op)
	}
	return hist
}
