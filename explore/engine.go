// Package explore is the explicit-state, level-synchronous breadth-first
// explorer over real dig containers (DESIGN.md §3.4).
package explore

import (
	"crypto/sha256"
	"encoding/hex"
	"fmt"
	"sort"
	"strings"

	h "verif/harness"
	u "verif/universe"
)

// Budget bounds the number of ops of each kind on one path.
type Budget struct {
	Scopes, Provides, Decorates, Invokes, Others int
	Rejected                                     int // max non-ok registration ops on a path (-1 unlimited)
}

// Violation is one definite contradiction between an observation and an oracle.
type Violation struct {
	Rule   string
	Detail string
}

// Ctx is what a monitor sees after one transition.
type Ctx struct {
	Sc    *Scenario
	Run   *h.Run
	Step  *h.Step // the transition just executed (last step of Run)
	Hist  []int   // alphabet indices of the whole path incl. the last op
	Stats map[string]int
}

func (c *Ctx) Hit(name string) { c.Stats[name]++ }

// Ops returns the ops of the path.
func (c *Ctx) Ops() []h.Op {
	ops := make([]h.Op, len(c.Hist))
	for i, x := range c.Hist {
		ops[i] = c.Sc.Alphabet[x]
	}
	return ops
}

type Monitor func(c *Ctx) []Violation

// Scenario is one closed system: configuration, alphabet, bounds, oracles.
type Scenario struct {
	Name     string
	Cfg      h.Config
	Plans    map[string][]u.Beh
	Alphabet []h.Op
	Depth    int
	Budget   Budget
	// Allowed may veto an op given the run so far (must depend only on state
	// that is part of the dedup key: model, budget use, configuration).
	Allowed  func(r *h.Run, op h.Op) bool
	Monitors []Monitor
	NoDedup  bool
	// Prefix is a fixed list of ops applied before exploration starts.
	Prefix []h.Op
	// KeyExtra, when set, contributes to the dedup key: the part of the
	// *history* (not of the container state) that a monitor of this scenario
	// depends on, so that two paths are merged only if that agrees too.
	KeyExtra func(r *h.Run) string
}

type use struct{ scopes, provides, decorates, invokes, others, rejected int }

func (sc *Scenario) usage(r *h.Run) use {
	var x use
	for _, st := range r.Steps[len(sc.Prefix):] {
		switch st.Op.Kind {
		case h.OpScope:
			x.scopes++
		case h.OpProvide:
			x.provides++
		case h.OpDecorate:
			x.decorates++
		case h.OpInvoke:
			x.invokes++
		default:
			x.others++
		}
		if !st.V.OK && (st.Op.Kind == h.OpProvide || st.Op.Kind == h.OpDecorate) {
			x.rejected++
		}
	}
	return x
}

func (sc *Scenario) allowed(r *h.Run, op h.Op) bool {
	x := sc.usage(r)
	b := sc.Budget
	switch op.Kind {
	case h.OpScope:
		if x.scopes >= b.Scopes {
			return false
		}
	case h.OpProvide:
		if x.provides >= b.Provides {
			return false
		}
	case h.OpDecorate:
		if x.decorates >= b.Decorates {
			return false
		}
	case h.OpInvoke:
		if x.invokes >= b.Invokes {
			return false
		}
	default:
		if x.others >= b.Others {
			return false
		}
	}
	if b.Rejected >= 0 && x.rejected > b.Rejected {
		return false
	}
	if op.Scope >= len(r.Scopes) {
		return false
	}
	if sc.Allowed != nil && !sc.Allowed(r, op) {
		return false
	}
	return true
}

// replay builds the run for a path.
func (sc *Scenario) replay(hist []int) *h.Run {
	r := h.NewRun(sc.Cfg)
	for k, v := range sc.Plans {
		r.RT.Plans[k] = v
	}
	for _, op := range sc.Prefix {
		r.Apply(op)
	}
	for _, x := range hist {
		r.Apply(sc.Alphabet[x])
	}
	return r
}

// Key is the dedup key of the state a run is in.
func (sc *Scenario) Key(r *h.Run) string {
	var b strings.Builder
	b.WriteString(r.Fingerprint())
	// (the full spec text, options included: two variants of one function —
	// with / without a callback, with a foreign location — share an instance
	// name but are different registrations)
	for _, c := range r.M.Ctors {
		fmt.Fprintf(&b, "C %s %d %d %s\n", c.Inst, c.Home, c.Orig, h.FuncText(c.F))
	}
	for _, d := range r.M.Decos {
		fmt.Fprintf(&b, "D %s %d %s\n", d.Inst, d.Scope, h.FuncText(d.F))
	}
	fmt.Fprintf(&b, "P %v\n", r.M.Parent)
	// execution counters of registered functions drive fault plans
	var ex []string
	for inst, n := range r.RT.Execs {
		if r.M.CtorByInst(inst) != nil || r.M.DecoByInst(inst) != nil {
			ex = append(ex, fmt.Sprintf("%s=%d", inst, n))
		}
	}
	sort.Strings(ex)
	fmt.Fprintf(&b, "E %v\nU %+v\n", ex, sc.usage(r))
	if sc.KeyExtra != nil {
		fmt.Fprintf(&b, "X %s\n", sc.KeyExtra(r))
	}
	sum := sha256.Sum256([]byte(b.String()))
	return hex.EncodeToString(sum[:12])
}

// TransResult is what executing one transition yields.
type TransResult struct {
	Op    int
	Key   string
	Class string
	Viol  []Violation
	Evs   int // number of user-function events during the op
}

// Expand executes every allowed successor of the state reached by hist,
// starting at alphabet index from; announce is called before each transition.
func (sc *Scenario) Expand(hist []int, from int, stats map[string]int, announce func(op int), emit func(TransResult)) {
	if len(sc.Alphabet) == 0 {
		return
	}
	parent := sc.replay(hist)
	for x := from; x < len(sc.Alphabet); x++ {
		op := sc.Alphabet[x]
		if !sc.allowed(parent, op) {
			continue
		}
		announce(x)
		emit(sc.RunTransition(hist, x, stats))
	}
}

// RunTransition replays hist on a fresh container, applies op x and judges it.
func (sc *Scenario) RunTransition(hist []int, x int, stats map[string]int) TransResult {
	r := sc.replay(hist)
	st := r.Apply(sc.Alphabet[x])
	full := append(append([]int{}, hist...), x)
	ctx := &Ctx{Sc: sc, Run: r, Step: st, Hist: full, Stats: stats}
	res := TransResult{Op: x, Class: st.V.Class(), Evs: st.LogTo - st.LogFrom}
	if r.RT.MaxDepth > 1 {
		res.Viol = append(res.Viol, Violation{Rule: "harness/user-functions-nested", Detail: "a user function ran inside another one"})
	}
	for _, m := range sc.Monitors {
		res.Viol = append(res.Viol, m(ctx)...)
	}
	if !sc.NoDedup {
		res.Key = sc.Key(r)
	}
	return res
}

// Judge replays a path (no explorer) and returns the violations of its last op.
func (sc *Scenario) Judge(hist []int) (*h.Run, []Violation) {
	if len(hist) == 0 {
		return sc.replay(nil), nil
	}
	stats := map[string]int{}
	r := sc.replay(hist[:len(hist)-1])
	st := r.Apply(sc.Alphabet[hist[len(hist)-1]])
	ctx := &Ctx{Sc: sc, Run: r, Step: st, Hist: hist, Stats: stats}
	var vs []Violation
	for _, m := range sc.Monitors {
		vs = append(vs, m(ctx)...)
	}
	return r, vs
}
