package explore

import (
	"bufio"
	"encoding/json"
	"fmt"
	"hash/fnv"
	"io"
	"os"
	"runtime/debug"
	"strconv"
	"strings"

	h "verif/harness"
)

// Enum is an input-shape enumeration: N items, each judged independently.
type Enum struct {
	Name     string
	N        int
	Run      func(i int, stats map[string]int) []Violation
	Describe func(i int) string
}

// Unit is one exhaustive sub-exploration of a check.
type Unit struct {
	Sc *Scenario
	En *Enum
}

func (un Unit) Name() string {
	if un.Sc != nil {
		return un.Sc.Name
	}
	return un.En.Name
}

// Check is the definition of one property's check.
type Check struct {
	ID    string
	Units func(tier string) []Unit
	// Rule describes what is enumerated and what counts as non-trivial.
	Rule        string
	Assumptions []string
	// DeathIsViolation: a worker killed by a transition (stack overflow, fatal
	// runtime error, non-termination) violates this property (C05, C14). For
	// the other properties such a transition cannot be judged: it is counted
	// in the evidence (worker_deaths) and skipped; C05 owns it.
	DeathIsViolation bool
	// Cross (thorough tier only): besides its own units the check explores the
	// quick-tier history units of the checks named in CrossFrom, judged by its
	// own general-purpose monitors CrossMonitors — every oracle over every
	// alphabet the framework knows, not only over the alphabets written for it.
	CrossMonitors []Monitor
	CrossFrom     []string
}

// AllUnits is the unit list of a check for a tier: its own units plus, in the
// thorough tier, the borrowed ones (see Check.CrossFrom). Master and workers
// both build the list through this function, so unit indices agree.
func (c *Check) AllUnits(tier string) []Unit {
	units := c.Units(tier)
	if tier != "thorough" || len(c.CrossMonitors) == 0 {
		return units
	}
	for _, id := range c.CrossFrom {
		src := Lookup(id)
		if src == nil || id == c.ID {
			continue
		}
		for _, un := range src.Units("quick") {
			if un.Sc == nil {
				continue
			}
			sc := *un.Sc
			sc.Name = "cross/" + id + "/" + sc.Name
			sc.Monitors = c.CrossMonitors
			units = append(units, Unit{Sc: &sc})
		}
	}
	return units
}

var registry = map[string]*Check{}

func Register(c *Check) { registry[c.ID] = c }
func Lookup(id string) *Check {
	return registry[id]
}
func IDs() []string {
	var ids []string
	for id := range registry {
		ids = append(ids, id)
	}
	return ids
}

func parseHist(s string) []int {
	if s == "" || s == "-" {
		return nil
	}
	var out []int
	for _, p := range strings.Split(s, ",") {
		n, _ := strconv.Atoi(p)
		out = append(out, n)
	}
	return out
}

func histString(hist []int) string {
	if len(hist) == 0 {
		return "-"
	}
	var ps []string
	for _, x := range hist {
		ps = append(ps, strconv.Itoa(x))
	}
	return strings.Join(ps, ",")
}

func subsetHash(s string) uint32 {
	f := fnv.New32a()
	f.Write([]byte(s))
	return f.Sum32()
}

// WorkerMain serves jobs on stdin until EOF. Protocol (one line each):
//
//	H <unit> <careful> <from> <hist>   expand a BFS state
//	E <unit> <careful> <from> <to>     run enumeration items [from,to)
//	J <unit> <hist|item>               judge one path / item, with text
//
// Replies: T <x> (careful: about to run x), R ... per transition, V ... per
// enumeration violation, S <stats json>, D (job done).
// IsWorker is set in worker processes before the units are built, so that a
// check can postpone building tables only the master needs up front.
var IsWorker bool

func WorkerMain(check *Check, tier string, in io.Reader, out io.Writer) {
	IsWorker = true
	debug.SetMaxStack(4 << 20)
	units := check.AllUnits(tier)
	w := bufio.NewWriterSize(out, 1<<16)
	sc := bufio.NewScanner(in)
	sc.Buffer(make([]byte, 1<<20), 1<<24)
	for sc.Scan() {
		f := strings.Fields(sc.Text())
		if len(f) == 0 {
			continue
		}
		stats := map[string]int{}
		switch f[0] {
		case "H":
			ui, _ := strconv.Atoi(f[1])
			careful := f[2] == "1"
			from, _ := strconv.Atoi(f[3])
			hist := parseHist(f[4])
			s := units[ui].Sc
			s.Expand(hist, from, stats, func(op int) {
				if careful {
					fmt.Fprintf(w, "T %d\n", op)
					w.Flush()
				}
			}, func(tr TransResult) {
				// determinism discipline: a deterministic 1/64 subset is executed twice
				if tr.Key != "" && subsetHash(tr.Key)%64 == 0 {
					tr2 := s.RunTransition(hist, tr.Op, map[string]int{})
					if tr2.Key != tr.Key || tr2.Class != tr.Class {
						tr.Viol = append(tr.Viol, Violation{Rule: "outcome-depends-on-process-state",
							Detail: fmt.Sprintf("same history executed twice in one process: %s/%s then %s/%s", tr.Class, tr.Key, tr2.Class, tr2.Key)})
					}
					stats["determinism_doubles"]++
				}
				vj, _ := json.Marshal(tr.Viol)
				fmt.Fprintf(w, "R %d %s %d %s %s\n", tr.Op, orDash(tr.Key), tr.Evs, strings.ReplaceAll(tr.Class, " ", "_"), vj)
			})
		case "E":
			ui, _ := strconv.Atoi(f[1])
			careful := f[2] == "1"
			from, _ := strconv.Atoi(f[3])
			to, _ := strconv.Atoi(f[4])
			en := units[ui].En
			for i := from; i < to; i++ {
				if careful {
					fmt.Fprintf(w, "T %d\n", i)
					w.Flush()
				}
				if vs := en.Run(i, stats); len(vs) > 0 {
					vj, _ := json.Marshal(vs)
					fmt.Fprintf(w, "V %d %s\n", i, vj)
				}
			}
		case "J":
			ui, _ := strconv.Atoi(f[1])
			var vs []Violation
			var text []string
			if s := units[ui].Sc; s != nil {
				hist := parseHist(f[2])
				// announce before running: the judged path itself may be fatal
				fmt.Fprintf(w, "T 0\n")
				w.Flush()
				var r *h.Run
				r, vs = s.Judge(hist)
				text = h.HistoryText(r)
			} else {
				i, _ := strconv.Atoi(f[2])
				fmt.Fprintf(w, "T %d\n", i)
				w.Flush()
				vs = units[ui].En.Run(i, stats)
				text = []string{units[ui].En.Describe(i)}
			}
			vj, _ := json.Marshal(vs)
			tj, _ := json.Marshal(text)
			fmt.Fprintf(w, "V 0 %s\nL %s\n", vj, tj)
		}
		sj, _ := json.Marshal(stats)
		fmt.Fprintf(w, "S %s\nD\n", sj)
		w.Flush()
	}
}

func orDash(s string) string {
	if s == "" {
		return "-"
	}
	return s
}

// Stderr helper for worker mains.
func Fatalf(format string, a ...interface{}) {
	fmt.Fprintf(os.Stderr, format+"\n", a...)
	os.Exit(2)
}

// ReplayFile re-executes a recorded violation without the explorer: a plain
// loop over the ops plus the oracle. Exit code 1 iff the rule fires again.
func ReplayFile(c *Check, rp Replay) int {
	debug.SetMaxStack(4 << 20)
	units := c.AllUnits(rp.Tier)
	if rp.Unit >= len(units) {
		Fatalf("unit %d out of range", rp.Unit)
	}
	un := units[rp.Unit]
	var vs []Violation
	if un.Sc != nil {
		r, v := un.Sc.Judge(rp.Hist)
		vs = v
		for _, l := range h.HistoryText(r) {
			fmt.Println(l)
		}
	} else {
		fmt.Println(un.En.Describe(rp.Hist[0]))
		vs = un.En.Run(rp.Hist[0], map[string]int{})
	}
	rule := rp.Rule
	if i := strings.Index(rule, " ["); i >= 0 {
		rule = rule[:i]
	}
	for _, v := range vs {
		fmt.Printf("violation rule=%s %s\n", v.Rule, v.Detail)
		if v.Rule == rule {
			fmt.Printf("VIOLATION property=%s replay=%s\n", rp.Property, "(replayed)")
			return 1
		}
	}
	fmt.Println("not reproduced")
	return 0
}
