package harness

import (
	"fmt"
	"strings"

	u "verif/universe"
)

// FuncText renders a function spec in the one-line notation of DESIGN.md §4:
// params A required, A? optional, A@n named, A*g group, A*g~ soft; results A,
// A@n, A+g member, [A]+g! flatten, "as IA".
func FuncText(f *u.Func) string {
	var pp func(p u.Param) string
	pp = func(p u.Param) string {
		switch p.Kind {
		case u.PSingle:
			s := p.Type
			if p.Name != "" {
				s += "@" + p.Name
			}
			if p.Optional {
				s += "?"
			}
			return s
		case u.PGroup:
			s := p.Type + "*" + p.Group
			if p.Soft {
				s += "~"
			}
			if p.SliceT != "" {
				s += "^" + p.SliceT
			}
			return s
		default:
			var fs []string
			for _, q := range p.Fields {
				fs = append(fs, pp(q))
			}
			if p.Embed != 0 {
				return fmt.Sprintf("{^%d ", p.Embed) + strings.Join(fs, ";") + "}"
			}
			return "{" + strings.Join(fs, ";") + "}"
		}
	}
	var rr func(r u.Result) string
	rr = func(r u.Result) string {
		switch r.Kind {
		case u.RSingle:
			s := r.Type
			if r.Name != "" {
				s += "@" + r.Name
			}
			return s
		case u.RGroup:
			if r.Flatten {
				return fmt.Sprintf("[%s]+%s!%d", r.Type, r.Group, r.N)
			}
			return r.Type + "+" + r.Group
		default:
			var fs []string
			for _, q := range r.Fields {
				fs = append(fs, rr(q))
			}
			if r.Embed != 0 {
				return fmt.Sprintf("{^%d ", r.Embed) + strings.Join(fs, ";") + "}"
			}
			return "{" + strings.Join(fs, ";") + "}"
		}
	}
	var ps, rs []string
	for _, p := range f.Params {
		ps = append(ps, pp(p))
	}
	if f.Variadic {
		ps = append(ps, "...int")
	}
	for _, r := range f.Results {
		rs = append(rs, rr(r))
	}
	if f.Err {
		if f.ErrAt > 0 && f.ErrAt-1 < len(rs) {
			rs = append(rs[:f.ErrAt-1], append([]string{"error"}, rs[f.ErrAt-1:]...)...)
		} else {
			rs = append(rs, "error")
		}
	}
	s := fmt.Sprintf("%s:(%s)->(%s)", f.ID, strings.Join(ps, ","), strings.Join(rs, ","))
	if f.OptName != "" {
		s += " Name=" + f.OptName
	}
	if f.OptGroup != "" {
		s += " Group=" + f.OptGroup
		if f.FlatN > 0 {
			s += fmt.Sprintf("/%d", f.FlatN)
		}
	}
	if len(f.As) > 0 {
		s += " As=" + strings.Join(f.As, ",")
	}
	if f.Export {
		s += " export"
	}
	if f.ErrCustom {
		s += " errtype=CodedErr"
	}
	if f.LocPC != "" {
		s += " locationOf=" + f.LocPC
	}
	if f.Callback {
		s += " cb"
	}
	if f.Info {
		s += " info"
	}
	if f.OptsRev {
		s += " optsrev"
	}
	if f.SameVals {
		s += " samevalues"
	}
	return s
}

func (op Op) String() string {
	switch op.Kind {
	case OpScope:
		if op.RawDesc != "" {
			return fmt.Sprintf("scope s%d->new(name=%s)", op.Scope, op.RawDesc)
		}
		return fmt.Sprintf("scope s%d->new", op.Scope)
	case OpVisualize:
		if op.VisErr > 0 {
			return fmt.Sprintf("visualize err-of-step=%d", op.VisErr-1)
		}
		if op.VisErr == -1 {
			return "visualize err-of-last-failed-invoke"
		}
		return "visualize"
	case OpString:
		return fmt.Sprintf("string s%d", op.Scope)
	}
	if op.Raw != nil {
		return fmt.Sprintf("%s s%d RAW %s", op.Kind, op.Scope, op.RawDesc)
	}
	txt := fmt.Sprintf("%s s%d %s", op.Kind, op.Scope, FuncText(op.Fn))
	if len(op.Nested) > 0 {
		var ns []string
		for _, n := range op.Nested {
			ns = append(ns, n.String())
		}
		txt += " body{" + strings.Join(ns, "; ") + "}"
	}
	return txt
}

// HistoryText renders a history with verdicts, one op per line.
func HistoryText(r *Run) []string {
	out := []string{r.Cfg.String()}
	for i, st := range r.Steps {
		line := fmt.Sprintf("%d: %s => %s", i, st.Op, st.V.Class())
		if st.V.Msg != "" {
			line += " (" + st.V.Msg + ")"
		}
		var ev []string
		for _, e := range r.Events(st) {
			ev = append(ev, EventText(e))
		}
		if len(ev) > 0 {
			line += " log[" + strings.Join(ev, " ") + "]"
		}
		out = append(out, line)
	}
	return out
}

func EventText(e u.Event) string {
	switch e.Kind {
	case u.EvEnter:
		var as []string
		for _, a := range e.Args {
			var ts []string
			for _, t := range a.Toks {
				ts = append(ts, t.String())
			}
			as = append(as, strings.Join(ts, "|"))
		}
		return fmt.Sprintf("enter %s.%d(%s)", e.Fn, e.Exec, strings.Join(as, ","))
	case u.EvExit:
		return fmt.Sprintf("exit %s.%d:%s", e.Fn, e.Exec, e.Outcome)
	default:
		return fmt.Sprintf("cb %s err=%v rt=%v", e.Fn, e.CBErr != nil, e.CBRuntime)
	}
}
