// Package harness executes histories of operations against a real dig
// container and records what happened.
package harness

import (
	"bytes"
	"errors"
	"fmt"
	"io"
	"reflect"
	"strings"

	"go.uber.org/dig"

	"verif/model"
	u "verif/universe"
)

type OpKind int

const (
	OpScope OpKind = iota
	OpProvide
	OpDecorate
	OpInvoke
	OpVisualize
	OpString
)

var opNames = [...]string{"scope", "provide", "decorate", "invoke", "visualize", "string"}

func (k OpKind) String() string { return opNames[k] }

// Op is one API call. Scope is the target scope index (0 = root); for
// OpScope it is the parent of the scope to create.
type Op struct {
	Kind  OpKind
	Scope int
	Fn    *u.Func `json:",omitempty"`
	// Raw, when non-nil, is passed to dig instead of a manufactured function
	// (bad-input enumeration); RawOpts likewise replaces the options.
	Raw     func(r *Run) (fn interface{}, popts []dig.ProvideOption) `json:"-"`
	RawDesc string                                                   `json:",omitempty"`
	// VisErr: for OpVisualize, index of the step whose error is passed to
	// dig.VisualizeError (-1 none).
	VisErr int `json:",omitempty"`
	// Nested: registration ops the function of this op performs itself, from
	// inside its body, on its first execution (a Provide made while an Invoke
	// is in progress).
	Nested []Op `json:",omitempty"`
}

type Config struct {
	Defer   bool
	Recover bool
	Dry     bool
	// Observe makes the harness look at the container after every operation
	// (Visualize of the whole container, with the error of the most recent
	// failed Invoke when there is one, and String of every scope), discarding
	// the output: observations are then interleaved with every history, which
	// the breadth-first search by itself never does because an observation
	// leaves the fingerprint unchanged.
	Observe bool
}

func (c Config) String() string {
	b := func(x bool) int {
		if x {
			return 1
		}
		return 0
	}
	s := fmt.Sprintf("new defer=%d recover=%d dry=%d", b(c.Defer), b(c.Recover), b(c.Dry))
	if c.Observe {
		s += " observe=1"
	}
	return s
}

// Verdict classifies the outcome of one API call without looking at message text.
type Verdict struct {
	OK        bool
	Cycle     bool        // dig.IsCycleDetected(err)
	DigErr    bool        // errors.As(RootCause(err), *dig.Error)
	PanicErr  bool        // errors.As(err, *dig.PanicError)
	RootPanic bool        // RootCause(err) is a dig.PanicError
	PanicVal  *u.PanicVal // payload of PanicError, or of an escaped panic
	User      *u.UserErr  // RootCause(err) when it is a user error
	Identical bool        // err is the user error itself, unwrapped
	IsUser    bool        // errors.Is(err, User)
	Escaped   bool        // a panic escaped the API call
	EscOther  string      // escaped panic that is not a harness PanicVal
	CanVis    bool
	// a zero-valued struct error (u.ZeroErr{}): errors.Is(err, it); it is the
	// root cause; err is it, unwrapped
	ZeroErr, ZeroRoot, ZeroIdentical bool

	Bad bool  // harness-level: op not applicable (unknown scope)
	Err error `json:"-"`
	Msg string
}

// Class is the comparison form used by differential oracles.
func (v Verdict) Class() string {
	switch {
	case v.Bad:
		return "bad"
	case v.OK:
		return "ok"
	case v.Escaped:
		if v.PanicVal != nil {
			return "escaped-user-panic"
		}
		return "escaped-panic:" + v.EscOther
	}
	var parts []string
	if v.Cycle {
		parts = append(parts, "cycle")
	}
	if v.DigErr {
		parts = append(parts, "dig")
	}
	if v.RootPanic {
		parts = append(parts, "panicerr")
	}
	if v.User != nil {
		parts = append(parts, "user")
	}
	if v.Identical {
		parts = append(parts, "identical")
	}
	if len(parts) == 0 {
		parts = append(parts, "other")
	}
	return "err:" + strings.Join(parts, "+")
}

// Step is the record of one applied op.
type Step struct {
	Op      Op
	Inst    string // instance name of the function, if any
	V       Verdict
	LogFrom int
	LogTo   int
	PInfo   *dig.ProvideInfo
	DInfo   *dig.DecorateInfo
	IInfo   *dig.InvokeInfo
	Dot     string
	Text    string       // String() output
	Model   *model.Model // model state BEFORE the op
}

// Run is one container tree being driven through a history.
type Run struct {
	Cfg    Config
	C      *dig.Container
	Scopes []*dig.Scope
	RT     *u.Runtime
	M      *model.Model
	Steps  []*Step
	uses   map[string]int
	decls  map[string]string // declared pool function -> instance name in this run
	nested map[string][]Op   // instance -> ops its body performs
	// ObsFault is the first panic that escaped an observation (Config.Observe)
	ObsFault string
}

func NewRun(cfg Config) *Run {
	r := &Run{Cfg: cfg, RT: u.NewRuntime(), M: model.New(), uses: map[string]int{}, decls: map[string]string{}}
	opts := []dig.Option{dig.VerifEnv(1, r.RT.Clock)}
	if cfg.Defer {
		opts = append(opts, dig.DeferAcyclicVerification())
	}
	if cfg.Recover {
		opts = append(opts, dig.RecoverFromPanics())
	}
	if cfg.Dry {
		opts = append(opts, dig.DryRun(true))
	}
	r.C = dig.New(opts...)
	r.Scopes = []*dig.Scope{dig.VerifRootScope(r.C)}
	r.nested = map[string][]Op{}
	r.RT.OnBody = func(inst string, exec int) {
		if exec != 0 {
			return
		}
		for _, op := range r.nested[inst] {
			r.Apply(op)
		}
	}
	return r
}

// baseID strips an encoding suffix ("pA~pobj" -> "pA"): encodings of one
// function count as the same function for instance numbering.
func baseID(id string) string {
	if i := strings.IndexByte(id, '~'); i >= 0 {
		return id[:i]
	}
	return id
}

func (r *Run) nextInst(f *u.Func) string {
	k := r.uses[baseID(f.ID)]
	r.uses[baseID(f.ID)] = k + 1
	return fmt.Sprintf("%s#%d", f.ID, k)
}

func classify(err error) Verdict {
	v := Verdict{Err: err}
	if err == nil {
		v.OK = true
		return v
	}
	v.Msg = firstLine(err.Error())
	v.Cycle = dig.IsCycleDetected(err)
	rc := dig.RootCause(err)
	var de dig.Error
	v.DigErr = errors.As(rc, &de)
	var pe dig.PanicError
	if errors.As(err, &pe) {
		v.PanicErr = true
		if pv, ok := u.AsPanicVal(pe.Panic); ok {
			v.PanicVal = pv
		}
	}
	if _, ok := rc.(dig.PanicError); ok {
		v.RootPanic = true
	}
	if ue, ok := rc.(*u.UserErr); ok {
		v.User = ue
		v.IsUser = errors.Is(err, ue)
	}
	if ue, ok := err.(*u.UserErr); ok {
		v.Identical = true
		v.User = ue
		v.IsUser = true
	}
	if z := error(u.ZeroErr{}); errors.Is(err, z) {
		v.ZeroErr, v.ZeroRoot, v.ZeroIdentical = true, rc == z, err == z
	}
	v.CanVis = dig.CanVisualizeError(err)
	return v
}

func firstLine(s string) string {
	if i := strings.IndexByte(s, '\n'); i >= 0 {
		s = s[:i]
	}
	if len(s) > 160 {
		s = s[:160]
	}
	return s
}

// ProvideOptions assembles the dig options of a spec.
func (r *Run) ProvideOptions(f *u.Func, inst string, st *Step) []dig.ProvideOption {
	var po []dig.ProvideOption
	if f.OptName != "" {
		po = append(po, dig.Name(f.OptName))
	}
	if f.OptGroup != "" {
		po = append(po, dig.Group(f.OptGroup))
	}
	if len(f.As) > 0 {
		var as []interface{}
		for _, a := range f.As {
			as = append(as, u.AsPtr(a))
		}
		po = append(po, dig.As(as...))
	}
	if f.Export {
		po = append(po, dig.Export(true))
	}
	if f.LocPC != "" {
		if d := u.Declared(f.LocPC); d != nil {
			po = append(po, dig.LocationForPC(reflect.ValueOf(d.Fn).Pointer()))
		}
	}
	if f.Callback {
		po = append(po, dig.WithProviderCallback(r.callback(inst)))
	}
	if f.Info && st != nil {
		st.PInfo = PoisonedProvideInfo()
		po = append(po, dig.FillProvideInfo(st.PInfo))
	}
	if f.OptsRev {
		for i, j := 0, len(po)-1; i < j; i, j = i+1, j-1 {
			po[i], po[j] = po[j], po[i]
		}
	}
	return po
}

// PoisonedProvideInfo is the pre-filled Info struct handed to dig; a rejected
// Provide must leave it exactly like this.
func PoisonedProvideInfo() *dig.ProvideInfo {
	return &dig.ProvideInfo{ID: 12345, Inputs: []*dig.Input{nil}, Outputs: []*dig.Output{nil, nil}}
}

func PoisonedDecorateInfo() *dig.DecorateInfo {
	return &dig.DecorateInfo{ID: 12345, Inputs: []*dig.Input{nil}, Outputs: []*dig.Output{nil, nil}}
}

func (r *Run) callback(inst string) dig.Callback {
	return func(ci dig.CallbackInfo) {
		r.RT.Log = append(r.RT.Log, u.Event{Kind: u.EvCallback, Fn: inst, CBName: ci.Name, CBErr: ci.Error, CBRuntime: ci.Runtime, At: r.RT.Clock.Elapsed()})
	}
}

// makeFn returns the Go function for a spec: a declared pool function bound
// to this run, or a reflect-made one.
func (r *Run) makeFn(f *u.Func, inst string) interface{} {
	if f.Decl != "" {
		d := u.Declared(f.Decl)
		d.Bind(r.RT, inst)
		r.decls[f.Decl] = inst
		return d.Fn
	}
	return r.RT.Make(f, inst)
}

// Apply executes one op and records the step.
func (r *Run) Apply(op Op) *Step {
	st := &Step{Op: op, LogFrom: len(r.RT.Log), Model: r.M.Clone()}
	stepIdx := len(r.Steps)
	depth0 := r.RT.Depth
	r.Steps = append(r.Steps, st)
	for name, inst := range r.decls {
		u.Declared(name).Bind(r.RT, inst) // another run may have re-bound the pool in between
	}
	if op.Scope < 0 || op.Scope >= len(r.Scopes) {
		st.V = Verdict{Bad: true}
		st.LogTo = len(r.RT.Log)
		return st
	}
	s := r.Scopes[op.Scope]
	var err error
	func() {
		defer func() {
			if p := recover(); p != nil {
				st.V = Verdict{Escaped: true}
				if pv, ok := u.AsPanicVal(p); ok {
					st.V.PanicVal = pv
				} else {
					st.V.EscOther = firstLine(fmt.Sprint(p))
				}
				st.V.Msg = firstLine(fmt.Sprint(p))
				r.RT.Depth = depth0
			}
		}()
		switch op.Kind {
		case OpScope:
			idx := len(r.Scopes)
			name := fmt.Sprintf("s%d", idx)
			if op.RawDesc != "" {
				name = op.RawDesc // a caller-chosen name (siblings may share one)
			}
			child := s.Scope(name)
			dig.VerifReseedScope(child, int64(idx)+1)
			r.Scopes = append(r.Scopes, child)
			r.M.AddScope(op.Scope)
		case OpProvide:
			var fn interface{}
			var po []dig.ProvideOption
			if op.Raw != nil {
				fn, po = op.Raw(r)
			} else {
				st.Inst = r.nextInst(op.Fn)
				fn = r.makeFn(op.Fn, st.Inst)
				if len(op.Nested) > 0 {
					r.nested[st.Inst] = op.Nested
				}
				po = r.ProvideOptions(op.Fn, st.Inst, st)
			}
			err = s.Provide(fn, po...)
		case OpDecorate:
			var fn interface{}
			var do []dig.DecorateOption
			if op.Raw != nil {
				fn, _ = op.Raw(r)
			} else {
				st.Inst = r.nextInst(op.Fn)
				fn = r.makeFn(op.Fn, st.Inst)
				if op.Fn.Callback {
					do = append(do, dig.WithDecoratorCallback(r.callback(st.Inst)))
				}
				if op.Fn.Info {
					st.DInfo = PoisonedDecorateInfo()
					do = append(do, dig.FillDecorateInfo(st.DInfo))
				}
				if op.Fn.OptsRev {
					for i, j := 0, len(do)-1; i < j; i, j = i+1, j-1 {
						do[i], do[j] = do[j], do[i]
					}
				}
			}
			err = s.Decorate(fn, do...)
		case OpInvoke:
			var fn interface{}
			var io []dig.InvokeOption
			if op.Raw != nil {
				fn, _ = op.Raw(r)
			} else {
				st.Inst = r.nextInst(op.Fn)
				fn = r.makeFn(op.Fn, st.Inst)
				if len(op.Nested) > 0 {
					r.nested[st.Inst] = op.Nested
				}
				if op.Fn.Info {
					st.IInfo = &dig.InvokeInfo{}
					io = append(io, dig.FillInvokeInfo(st.IInfo))
				}
			}
			err = s.Invoke(fn, io...)
		case OpVisualize:
			var buf bytes.Buffer
			var vo []dig.VisualizeOption
			if k := r.VisErrStep(op); k >= 0 {
				vo = append(vo, dig.VisualizeError(r.Steps[k].V.Err))
			}
			err = dig.Visualize(r.C, &buf, vo...)
			st.Dot = buf.String()
		case OpString:
			st.Text = s.String()
		}
		st.V = classify(err)
	}()
	st.LogTo = len(r.RT.Log)
	if r.Cfg.Observe && op.Kind != OpVisualize && op.Kind != OpString {
		r.observe()
	}
	// instance names count accepted uses only: a rejected registration must
	// leave no trace, so re-registering the same function later is the same
	// function again (and differential runs with/without the rejected call
	// name everything alike).
	if !st.V.OK && op.Raw == nil && op.Fn != nil && (op.Kind == OpProvide || op.Kind == OpDecorate) && st.Inst != "" {
		r.uses[baseID(op.Fn.ID)]--
	}
	// the model follows the implementation's verdict
	if st.V.OK && op.Raw == nil {
		switch op.Kind {
		case OpProvide:
			r.M.AddCtor(st.Inst, op.Fn, op.Scope, stepIdx)
		case OpDecorate:
			r.M.AddDeco(st.Inst, op.Fn, op.Scope, stepIdx)
		}
	}
	return st
}

// observe looks at the container without (supposedly) changing it.
func (r *Run) observe() {
	defer func() {
		if p := recover(); p != nil && r.ObsFault == "" {
			r.ObsFault = firstLine(fmt.Sprint(p))
		}
	}()
	_ = dig.Visualize(r.C, io.Discard)
	if k := r.VisErrStep(Op{Kind: OpVisualize, VisErr: -1}); k >= 0 {
		_ = dig.Visualize(r.C, io.Discard, dig.VisualizeError(r.Steps[k].V.Err))
	}
	for _, s := range r.Scopes {
		_ = s.String()
	}
}

// VisErrStep resolves which step's error an OpVisualize passes to
// dig.VisualizeError: VisErr>0 names step VisErr-1, VisErr==-1 the most recent
// failed Invoke; -1 if none.
func (r *Run) VisErrStep(op Op) int {
	if op.VisErr > 0 && op.VisErr <= len(r.Steps) && r.Steps[op.VisErr-1].V.Err != nil {
		return op.VisErr - 1
	}
	if op.VisErr == -1 {
		for k := len(r.Steps) - 1; k >= 0; k-- {
			if st := r.Steps[k]; st.Op.Kind == OpInvoke && st.V.Err != nil {
				return k
			}
		}
	}
	return -1
}

// Events returns the execution log slice of a step.
func (r *Run) Events(st *Step) []u.Event { return r.RT.Log[st.LogFrom:st.LogTo] }

// Fingerprint is the canonical dump of the container's whole mutable state.
func (r *Run) Fingerprint() string {
	return dig.VerifFingerprint(r.C, r.RT.Label, u.CanonValue)
}

// Replay runs a whole history on a fresh container.
func Replay(cfg Config, plans map[string][]u.Beh, ops []Op) *Run {
	r := NewRun(cfg)
	for k, v := range plans {
		r.RT.Plans[k] = v
	}
	for _, op := range ops {
		r.Apply(op)
	}
	return r
}
