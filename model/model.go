// Package model is the boring reference model of dig's documented semantics:
// the set of accepted registrations on a scope tree, and a static resolver
// over it. It knows nothing of dig's algorithms.
package model

import (
	u "verif/universe"
)

type Ctor struct {
	Inst string
	F    *u.Func
	Home int // scope whose registration this is (root when exported)
	Orig int // scope Provide was called on: dependencies resolve from here
	P    []u.PLeaf
	R    []u.RLeaf
	Step int
}

type Deco struct {
	Inst  string
	F     *u.Func
	Scope int
	P     []u.PLeaf
	R     []u.RLeaf
	Keys  []u.Key
	Step  int
}

type Model struct {
	Parent []int // Parent[0] = -1
	Ctors  []*Ctor
	Decos  []*Deco
}

func New() *Model { return &Model{Parent: []int{-1}} }

func (m *Model) AddScope(parent int) int {
	m.Parent = append(m.Parent, parent)
	return len(m.Parent) - 1
}

// Vis is the path from x to the root, x first.
func (m *Model) Vis(x int) []int {
	var p []int
	for ; x >= 0; x = m.Parent[x] {
		p = append(p, x)
	}
	return p
}

// IsAncestorOrSelf: a is x or an ancestor of x.
func (m *Model) IsAncestorOrSelf(a, x int) bool {
	for ; x >= 0; x = m.Parent[x] {
		if x == a {
			return true
		}
	}
	return false
}

func (m *Model) Comparable(a, b int) bool {
	return m.IsAncestorOrSelf(a, b) || m.IsAncestorOrSelf(b, a)
}

func (m *Model) Depth(x int) int { return len(m.Vis(x)) - 1 }

func (m *Model) AddCtor(inst string, f *u.Func, target int, step int) *Ctor {
	c := &Ctor{Inst: inst, F: f, Home: target, Orig: target, P: f.PLeaves(), R: f.RLeaves(), Step: step}
	if f.Export {
		c.Home = 0
	}
	m.Ctors = append(m.Ctors, c)
	return c
}

func (m *Model) AddDeco(inst string, f *u.Func, scope int, step int) *Deco {
	g := *f // Name / Group / As are Provide options and do not apply to decorators
	g.OptName, g.OptGroup, g.As, g.FlatN = "", "", nil, 0
	d := &Deco{Inst: inst, F: f, Scope: scope, P: f.PLeaves(), R: g.RLeaves(), Step: step}
	for _, r := range d.R {
		d.Keys = append(d.Keys, DecoKey(r))
	}
	m.Decos = append(m.Decos, d)
	return d
}

// DecoKey is the key a decorator result leaf decorates: a group result must
// be the whole slice, keyed by element type.
func DecoKey(r u.RLeaf) u.Key {
	k := r.Keys[0]
	if k.Group != "" {
		if e, ok := u.SliceElem(k.T); ok {
			k.T = e
		}
	}
	return k
}

func hasKey(keys []u.Key, k u.Key) bool {
	for _, q := range keys {
		if q == k {
			return true
		}
	}
	return false
}

// Provides reports the result leaves of c that are stored under k.
func (c *Ctor) Provides(k u.Key) []int {
	var out []int
	for i, r := range c.R {
		if hasKey(r.Keys, k) {
			out = append(out, i)
		}
	}
	return out
}

// ProvidersIn lists constructors whose home scope is s providing k.
func (m *Model) ProvidersIn(s int, k u.Key) []*Ctor {
	var out []*Ctor
	for _, c := range m.Ctors {
		if c.Home == s && len(c.Provides(k)) > 0 {
			out = append(out, c)
		}
	}
	return out
}

// Prov: the providers of single key k in the nearest scope of Vis(x) that has
// any (normally exactly one).
func (m *Model) Prov(x int, k u.Key) []*Ctor {
	for _, s := range m.Vis(x) {
		if ps := m.ProvidersIn(s, k); len(ps) > 0 {
			return ps
		}
	}
	return nil
}

// Feed: every constructor with home in Vis(x) feeding group key k.
func (m *Model) Feed(x int, k u.Key) []*Ctor {
	var out []*Ctor
	for _, s := range m.Vis(x) {
		out = append(out, m.ProvidersIn(s, k)...)
	}
	return out
}

// DecoIn: the decorator of k registered in scope s, if any.
func (m *Model) DecoIn(s int, k u.Key) *Deco {
	for _, d := range m.Decos {
		if d.Scope == s && hasKey(d.Keys, k) {
			return d
		}
	}
	return nil
}

// DecoChain: decorators of k in Vis(x), nearest first.
func (m *Model) DecoChain(x int, k u.Key) []*Deco {
	var out []*Deco
	for _, s := range m.Vis(x) {
		if d := m.DecoIn(s, k); d != nil {
			out = append(out, d)
		}
	}
	return out
}

// Slot of decorator d producing key k.
func (d *Deco) Slot(k u.Key) int {
	for i, r := range d.R {
		if DecoKey(r) == k {
			return i
		}
	}
	return -1
}

func (m *Model) CtorByInst(inst string) *Ctor {
	for _, c := range m.Ctors {
		if c.Inst == inst {
			return c
		}
	}
	return nil
}

func (m *Model) DecoByInst(inst string) *Deco {
	for _, d := range m.Decos {
		if d.Inst == inst {
			return d
		}
	}
	return nil
}

// Clone makes a deep-enough copy (registrations are immutable once added).
func (m *Model) Clone() *Model {
	n := &Model{Parent: append([]int{}, m.Parent...)}
	n.Ctors = append(n.Ctors, m.Ctors...)
	n.Decos = append(n.Decos, m.Decos...)
	return n
}
