package model

import (
	u "verif/universe"
)

// Graph is a small digraph over registered functions (constructors first,
// then decorators).
type Graph struct {
	N     int
	Adj   [][]int
	Names []string
}

func (g *Graph) addEdge(a, b int) {
	for _, x := range g.Adj[a] {
		if x == b {
			return
		}
	}
	g.Adj[a] = append(g.Adj[a], b)
}

// Acyclic by Kahn's algorithm (independent of dig's DFS).
func (g *Graph) Acyclic() bool {
	indeg := make([]int, g.N)
	for _, as := range g.Adj {
		for _, b := range as {
			indeg[b]++
		}
	}
	var q []int
	for i, d := range indeg {
		if d == 0 {
			q = append(q, i)
		}
	}
	seen := 0
	for len(q) > 0 {
		x := q[0]
		q = q[1:]
		seen++
		for _, b := range g.Adj[x] {
			indeg[b]--
			if indeg[b] == 0 {
				q = append(q, b)
			}
		}
	}
	return seen == g.N
}

// OnCycle returns, per node, whether it lies on some cycle.
func (g *Graph) OnCycle() []bool {
	reach := make([][]bool, g.N)
	for i := range reach {
		reach[i] = make([]bool, g.N)
		for _, b := range g.Adj[i] {
			reach[i][b] = true
		}
	}
	for k := 0; k < g.N; k++ {
		for i := 0; i < g.N; i++ {
			if reach[i][k] {
				for j := 0; j < g.N; j++ {
					if reach[k][j] {
						reach[i][j] = true
					}
				}
			}
		}
	}
	out := make([]bool, g.N)
	for i := range out {
		out[i] = reach[i][i]
	}
	return out
}

func (m *Model) providesAny(c *Ctor, k u.Key) bool { return len(c.Provides(k)) > 0 }

// GPerm is the most permissive dependency graph: n -> p whenever p provides
// (or decorates) a key n consumes and their home scopes are comparable in the
// tree. Decorators are nodes; a decorator's dependency on its own key points
// past itself. extra, if non-nil, is a constructor not (yet) registered.
func (m *Model) GPerm(extra *Ctor) *Graph {
	ctors := append([]*Ctor{}, m.Ctors...)
	if extra != nil {
		ctors = append(ctors, extra)
	}
	n := len(ctors) + len(m.Decos)
	g := &Graph{N: n, Adj: make([][]int, n)}
	for _, c := range ctors {
		g.Names = append(g.Names, c.Inst)
	}
	for _, d := range m.Decos {
		g.Names = append(g.Names, d.Inst)
	}
	link := func(from int, home int, leaves []u.PLeaf, self *Deco) {
		for _, l := range leaves {
			for j, p := range ctors {
				if m.providesAny(p, l.Key) && m.Comparable(home, p.Home) {
					g.addEdge(from, j)
				}
			}
			for j, d := range m.Decos {
				if d == self {
					continue
				}
				if hasKey(d.Keys, l.Key) && m.Comparable(home, d.Scope) {
					g.addEdge(from, len(ctors)+j)
				}
			}
		}
	}
	for i, c := range ctors {
		link(i, c.Home, c.P, nil)
	}
	for j, d := range m.Decos {
		link(len(ctors)+j, d.Scope, d.P, d)
	}
	return g
}

// GStrict is the dependency graph among constructors as seen from scope x:
// nodes are the constructors visible from x (home in Vis(x)); single edges go
// to the nearest provider seen from x, group edges (soft included) to every
// visible feeder. extra as in GPerm.
func (m *Model) GStrict(x int, extra *Ctor) *Graph {
	mm := m
	if extra != nil {
		mm = m.Clone()
		mm.Ctors = append(mm.Ctors, extra)
	}
	var nodes []*Ctor
	idx := map[*Ctor]int{}
	for _, c := range mm.Ctors {
		if mm.IsAncestorOrSelf(c.Home, x) {
			idx[c] = len(nodes)
			nodes = append(nodes, c)
		}
	}
	g := &Graph{N: len(nodes), Adj: make([][]int, len(nodes))}
	for i, c := range nodes {
		g.Names = append(g.Names, c.Inst)
		for _, l := range c.P {
			if l.Key.IsGroup() {
				for _, p := range mm.Feed(x, l.Key) {
					g.addEdge(i, idx[p])
				}
			} else {
				for _, p := range mm.Prov(x, l.Key) {
					g.addEdge(i, idx[p])
				}
			}
		}
	}
	return g
}

// GScope is the graph a single scope's own cycle detection can see: nodes
// are the constructors visible from x, and a constructor depends on *every*
// visible provider of a key it consumes (not only the nearest one — which of
// them run-time resolution picks depends on the scope the consumer resolves
// from) and on every visible feeder of a group. extra as in GPerm.
func (m *Model) GScope(x int, extra *Ctor) *Graph {
	mm := m
	if extra != nil {
		mm = m.Clone()
		mm.Ctors = append(mm.Ctors, extra)
	}
	var nodes []*Ctor
	idx := map[*Ctor]int{}
	for _, c := range mm.Ctors {
		if mm.IsAncestorOrSelf(c.Home, x) {
			idx[c] = len(nodes)
			nodes = append(nodes, c)
		}
	}
	g := &Graph{N: len(nodes), Adj: make([][]int, len(nodes))}
	for i, c := range nodes {
		g.Names = append(g.Names, c.Inst)
		for _, l := range c.P {
			for _, p := range nodes {
				if mm.providesAny(p, l.Key) {
					g.addEdge(i, idx[p])
				}
			}
		}
	}
	return g
}

// Scopes lists all scope indices.
func (m *Model) Scopes() []int {
	out := make([]int, len(m.Parent))
	for i := range out {
		out[i] = i
	}
	return out
}

// Subtree lists x and its descendants.
func (m *Model) Subtree(x int) []int {
	var out []int
	for s := range m.Parent {
		if m.IsAncestorOrSelf(x, s) {
			out = append(out, s)
		}
	}
	return out
}
