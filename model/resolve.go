package model

import (
	"fmt"
	"sort"
	"strings"

	u "verif/universe"
)

// Tri is a three-valued answer: only Yes/No are definite.
type Tri int

const (
	Unknown Tri = iota
	Yes
	No
)

// Sup is the supplier of a key as seen from some scope.
type Sup struct {
	D *Deco   // the nearest applicable decorator, or nil
	C []*Ctor // else the providers in the nearest providing scope (normally one)
}

func (s Sup) None() bool { return s.D == nil && len(s.C) == 0 }

type DecoSet map[*Deco]bool

func (s DecoSet) with(d *Deco) DecoSet {
	n := DecoSet{}
	for k := range s {
		n[k] = true
	}
	n[d] = true
	return n
}

func (s DecoSet) key() string {
	var ks []string
	for d := range s {
		ks = append(ks, d.Inst)
	}
	sort.Strings(ks)
	return strings.Join(ks, ",")
}

// Resolve: the supplier of single key k for a consumer resolving at scope x,
// ignoring the decorators in skip (those currently being built).
func (m *Model) Resolve(x int, k u.Key, skip DecoSet) Sup {
	for _, d := range m.DecoChain(x, k) {
		if !skip[d] {
			return Sup{D: d}
		}
	}
	return Sup{C: m.Prov(x, k)}
}

// Fn is a registered function seen uniformly.
type Fn struct {
	C *Ctor
	D *Deco
}

func (f Fn) Inst() string {
	if f.C != nil {
		return f.C.Inst
	}
	return f.D.Inst
}
func (f Fn) Scope() int {
	if f.C != nil {
		return f.C.Orig
	}
	return f.D.Scope
}
func (f Fn) Leaves() []u.PLeaf {
	if f.C != nil {
		return f.C.P
	}
	return f.D.P
}

// MayRun is the set of registered functions that resolving the given leaves
// at scope x may legitimately execute (an over-approximation): nearest
// applicable decorators and their own dependencies, else nearest providers and
// theirs; every group decorator on the path and every visible feeder of a
// non-soft group.
func (m *Model) MayRun(x int, leaves []u.PLeaf, skip DecoSet) map[string]bool {
	out := map[string]bool{}
	seen := map[string]bool{}
	m.mayRun(x, leaves, skip, out, seen)
	return out
}

func (m *Model) mayRun(x int, leaves []u.PLeaf, skip DecoSet, out, seen map[string]bool) {
	for _, l := range leaves {
		key := fmt.Sprintf("%d|%v|%v|%s", x, l.Key, l.Soft, skip.key())
		if seen[key] {
			continue
		}
		seen[key] = true
		if !l.Key.IsGroup() {
			// The decorators on the stack are exactly those on the resolution
			// path (skip). The nearest decorator that is not being built is
			// the one that supplies the key; outer decorators and the
			// provider run only if that decorator (transitively) asks for
			// the key itself, which the recursion covers.
			var picked *Deco
			for _, d := range m.DecoChain(x, l.Key) {
				if !skip[d] {
					picked = d
					break
				}
			}
			if picked != nil {
				out[picked.Inst] = true
				m.mayRun(picked.Scope, picked.P, skip.with(picked), out, seen)
				continue
			}
			for _, c := range m.Prov(x, l.Key) {
				out[c.Inst] = true
				m.mayRun(c.Orig, c.P, skip, out, seen)
			}
			continue
		}
		decorated := false
		for _, d := range m.DecoChain(x, l.Key) {
			if skip[d] {
				continue
			}
			decorated = true
			out[d.Inst] = true
			m.mayRun(d.Scope, d.P, skip.with(d), out, seen)
		}
		if !l.Soft || decorated {
			if !l.Soft {
				for _, c := range m.Feed(x, l.Key) {
					out[c.Inst] = true
					m.mayRun(c.Orig, c.P, skip, out, seen)
				}
			}
		}
	}
}

// MustRun is the set of registered functions that must have completed
// successfully (now or earlier) when resolving leaves at x succeeded: an
// under-approximation that follows required single edges, non-soft group
// edges and nearest decorators, and does not descend through functions that
// were already built before (done).
func (m *Model) MustRun(x int, leaves []u.PLeaf, skip DecoSet, done func(string) bool) map[string]bool {
	out := map[string]bool{}
	seen := map[string]bool{}
	m.mustRun(x, leaves, skip, done, out, seen)
	return out
}

func (m *Model) mustRun(x int, leaves []u.PLeaf, skip DecoSet, done func(string) bool, out, seen map[string]bool) {
	for _, l := range leaves {
		key := fmt.Sprintf("%d|%v|%v|%s", x, l.Key, l.Soft, skip.key())
		if seen[key] {
			continue
		}
		seen[key] = true
		if !l.Key.IsGroup() {
			if l.Optional {
				continue
			}
			sup := m.Resolve(x, l.Key, skip)
			if sup.D != nil {
				out[sup.D.Inst] = true
				if !done(sup.D.Inst) {
					m.mustRun(sup.D.Scope, sup.D.P, skip.with(sup.D), done, out, seen)
				}
				continue
			}
			if len(sup.C) == 1 {
				c := sup.C[0]
				out[c.Inst] = true
				if !done(c.Inst) {
					m.mustRun(c.Orig, c.P, skip, done, out, seen)
				}
			}
			continue
		}
		// groups: soft groups have no definite must-set
		if l.Soft {
			continue
		}
		// every decorator of the group on the way to the root that is not
		// being built right now runs (root first), each with its own closure
		// — typically the group itself, seen from the decorator's scope; the
		// group's feeders are then demanded there, not here
		active := false
		for _, d := range m.DecoChain(x, l.Key) {
			if skip[d] {
				continue
			}
			active = true
			out[d.Inst] = true
			if !done(d.Inst) {
				m.mustRun(d.Scope, d.P, skip.with(d), done, out, seen)
			}
		}
		if active {
			continue
		}
		for _, c := range m.Feed(x, l.Key) {
			out[c.Inst] = true
			if !done(c.Inst) {
				m.mustRun(c.Orig, c.P, skip, done, out, seen)
			}
		}
	}
}

// Avail answers whether resolving the leaves at x is certain to find every
// required dependency (Yes), certain to hit a missing required dependency
// (No), or neither (Unknown: cycles, decorated-but-unprovided keys, optional
// corner cases). done reports functions already built.
func (m *Model) Avail(x int, leaves []u.PLeaf, skip DecoSet, done func(string) bool) Tri {
	return m.avail(x, leaves, skip, done, map[string]bool{}, true)
}

// unprovided answers for a required single key that no constructor visible
// from x provides but some visible decorator produces (§3.6-3). dig serves
// such a key only from a decorated value that already exists, so:
//   - a direct parameter of the invoked function (top: checked before anything
//     runs) is definitely missing unless one of those decorators completed
//     earlier;
//   - at any depth it is definitely missing if none of the decorators can ever
//     complete (each needs something unavailable — typically the key itself);
//   - otherwise the answer is left open.
func (m *Model) unprovided(x int, k u.Key, skip DecoSet, done func(string) bool, stack map[string]bool, top bool) Tri {
	anyDone, anyCan := false, false
	for _, d := range m.DecoChain(x, k) {
		if skip[d] {
			continue
		}
		if done(d.Inst) {
			anyDone = true
		}
		if m.availFn(Fn{D: d}, skip.with(d), done, stack) != No {
			anyCan = true
		}
	}
	if anyDone {
		return Unknown
	}
	if top || !anyCan {
		return No
	}
	return Unknown
}

func (m *Model) avail(x int, leaves []u.PLeaf, skip DecoSet, done func(string) bool, stack map[string]bool, top bool) Tri {
	res := Yes
	and := func(t Tri) {
		switch {
		case t == No:
			res = No
		case t == Unknown && res == Yes:
			res = Unknown
		}
	}
	for _, l := range leaves {
		if res == No {
			break
		}
		if !l.Key.IsGroup() {
			sup := m.Resolve(x, l.Key, skip)
			if l.Optional {
				// never a reason to fail for missing; whether it is fully
				// available only matters to the optional-zero rule. An
				// optional key decorated by a decorator whose dependencies
				// are not fully available is outside the claim (quantifier).
				if sup.D != nil && m.availFn(Fn{D: sup.D}, skip.with(sup.D), done, stack) != Yes {
					and(Unknown)
				}
				continue
			}
			switch {
			case len(m.Prov(x, l.Key)) == 0 && len(m.DecoChain(x, l.Key)) == 0:
				and(No) // no constructor visible, nothing decorates the key
			case len(m.Prov(x, l.Key)) == 0:
				// no constructor visible, but a visible decorator produces the
				// key (§3.6-3)
				and(m.unprovided(x, l.Key, skip, done, stack, top))
			case sup.D != nil:
				and(m.availFn(Fn{D: sup.D}, skip.with(sup.D), done, stack))
				// a decorator consuming its own key needs the provider too:
				// covered through its params.
			default:
				for _, c := range sup.C {
					and(m.availFn(Fn{C: c}, skip, done, stack))
				}
			}
			continue
		}
		if len(m.DecoChain(x, l.Key)) > 0 {
			and(Unknown)
			continue
		}
		if l.Soft {
			continue
		}
		for _, c := range m.Feed(x, l.Key) {
			and(m.availFn(Fn{C: c}, skip, done, stack))
		}
	}
	return res
}

func (m *Model) availFn(f Fn, skip DecoSet, done func(string) bool, stack map[string]bool) Tri {
	if done(f.Inst()) {
		return Yes
	}
	k := f.Inst() + "|" + skip.key()
	if stack[k] {
		return Unknown // cycle
	}
	stack[k] = true
	defer delete(stack, k)
	return m.avail(f.Scope(), f.Leaves(), skip, done, stack, false)
}

// OptionalZero answers, for an optional single leaf resolved at x, whether it
// must receive the zero value (Yes: no constructor visible, or the visible
// constructor's dependencies are unavailable), must receive a real value (No),
// or either (Unknown).
func (m *Model) OptionalZero(x int, l u.PLeaf, skip DecoSet, done func(string) bool) Tri {
	sup := m.Resolve(x, l.Key, skip)
	if len(m.DecoChain(x, l.Key)) > 0 {
		return Unknown // decorated keys are outside the optional clause (§3.6-3, quantifier)
	}
	if sup.None() {
		return Yes
	}
	res := Yes // all providers unavailable -> zero
	for _, c := range sup.C {
		switch m.availFn(Fn{C: c}, skip, done, map[string]bool{}) {
		case Yes:
			return No
		case Unknown:
			res = Unknown
		}
	}
	return res
}

// InClosure reports the decorators whose dependency closure contains inst
// (so inst may execute while that decorator is on the stack).
func (m *Model) InClosure(inst string) DecoSet {
	out := DecoSet{}
	for _, d := range m.Decos {
		if m.MayRun(d.Scope, d.P, DecoSet{d: true})[inst] {
			out[d] = true
		}
	}
	return out
}
