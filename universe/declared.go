package universe

import (
	"reflect"

	"go.uber.org/dig"
)

// The declared pool: ordinary top-level functions (distinct code pointers, so
// dig gives them distinct IDs, locations and callback names), each a thin
// wrapper around the same generic body as the reflect-made functions.

type Decl struct {
	Name string
	Fn   interface{}
	Spec *Func
	rt   *Runtime
	inst string
}

var declared = map[string]*Decl{}

// Declared looks a pool function up by name.
func Declared(name string) *Decl { return declared[name] }

// DeclaredNames lists the pool in registration order.
var DeclaredNames []string

func decl(name string, fn interface{}, spec *Func) {
	spec.ID = name
	spec.Decl = name
	declared[name] = &Decl{Name: name, Fn: fn, Spec: spec}
	DeclaredNames = append(DeclaredNames, name)
}

// Bind makes the pool function log into rt under instance name inst.
func (d *Decl) Bind(rt *Runtime, inst string) {
	d.rt, d.inst = rt, inst
	rt.Register(d.Fn, inst)
}

func call(name string, args ...interface{}) []reflect.Value {
	d := declared[name]
	vals := make([]reflect.Value, len(args))
	for i, a := range args {
		vals[i] = reflect.ValueOf(a)
	}
	return d.rt.Body(d.Spec, d.inst, reflect.TypeOf(d.Fn), vals)
}

func asErr(v reflect.Value) error {
	if v.IsNil() {
		return nil
	}
	return v.Interface().(error)
}

// parameter / result objects of the pool (field names follow the F<i> convention)
type InOptA struct {
	dig.In
	F0 *TA `optional:"true"`
}
type InOptAn struct {
	dig.In
	F0 *TA `name:"n" optional:"true"`
}
type InGroupA struct {
	dig.In
	F0 []*TA `group:"g"`
}
type InSoftA struct {
	dig.In
	F0 []*TA `group:"g,soft"`
}
type InNamedB struct {
	dig.In
	F0 *TB `name:"n"`
}
type InMixed struct {
	dig.In
	F0 *TA
	F1 *TB   `name:"n" optional:"true"`
	F2 []*TA `group:"g"`
}
type OutBnAg struct {
	dig.Out
	F0 *TB `name:"n"`
	F1 *TA `group:"g"`
}
type OutFlat struct {
	dig.Out
	F0 []*TA `group:"g,flatten"`
}
type OutTwoG struct {
	dig.Out
	F0 *TA `group:"g"`
	F1 *TA `group:"g"`
}
type OutGroupSlice struct {
	dig.Out
	F0 []*TA `group:"g"`
}

func DA() *TA                { return call("DA")[0].Interface().(*TA) }
func DA2() *TA               { return call("DA2")[0].Interface().(*TA) }
func DAe() (*TA, error)      { r := call("DAe"); return r[0].Interface().(*TA), asErr(r[1]) }
func DB(a *TA) *TB           { return call("DB", a)[0].Interface().(*TB) }
func DBe(a *TA) (*TB, error) { r := call("DBe", a); return r[0].Interface().(*TB), asErr(r[1]) }
func DBn() *TB               { return call("DBn")[0].Interface().(*TB) }
func DC(a *TA, b *TB) *TC    { return call("DC", a, b)[0].Interface().(*TC) }
func DCe(b *TB) (*TC, error) { r := call("DCe", b); return r[0].Interface().(*TC), asErr(r[1]) }
func DCg(p InGroupA) *TC     { return call("DCg", p)[0].Interface().(*TC) }
func DCge(p InGroupA) (*TC, error) {
	r := call("DCge", p)
	return r[0].Interface().(*TC), asErr(r[1])
}
func DCs(p InSoftA) *TC       { return call("DCs", p)[0].Interface().(*TC) }
func DCo(p InOptA) *TC        { return call("DCo", p)[0].Interface().(*TC) }
func DCon(p InOptAn) *TC      { return call("DCon", p)[0].Interface().(*TC) }
func DCnb(p InNamedB) *TC     { return call("DCnb", p)[0].Interface().(*TC) }
func DD(c *TC) *TD            { return call("DD", c)[0].Interface().(*TD) }
func DDm(p InMixed) *TD       { return call("DDm", p)[0].Interface().(*TD) }
func DG1() *TA                { return call("DG1")[0].Interface().(*TA) }
func DG2() *TA                { return call("DG2")[0].Interface().(*TA) }
func DG1e() (*TA, error)      { r := call("DG1e"); return r[0].Interface().(*TA), asErr(r[1]) }
func DFl() []*TA              { return call("DFl")[0].Interface().([]*TA) }
func DM() OutBnAg             { return call("DM")[0].Interface().(OutBnAg) }
func DMf() OutFlat            { return call("DMf")[0].Interface().(OutFlat) }
func DAB() (*TA, *TB)         { r := call("DAB"); return r[0].Interface().(*TA), r[1].Interface().(*TB) }
func DAsI() *TA               { return call("DAsI")[0].Interface().(*TA) }
func DAsII() *TA              { return call("DAsII")[0].Interface().(*TA) }
func DdA(a *TA) *TA           { return call("DdA", a)[0].Interface().(*TA) }
func DdAe(a *TA) (*TA, error) { r := call("DdAe", a); return r[0].Interface().(*TA), asErr(r[1]) }
func DdB(b *TB) *TB           { return call("DdB", b)[0].Interface().(*TB) }
func DdBe(a *TA, b *TB) (*TB, error) {
	r := call("DdBe", a, b)
	return r[0].Interface().(*TB), asErr(r[1])
}
func DdG(p InGroupA) OutGroupSlice { return call("DdG", p)[0].Interface().(OutGroupSlice) }
func DdGe(p InGroupA) (OutGroupSlice, error) {
	r := call("DdGe", p)
	return r[0].Interface().(OutGroupSlice), asErr(r[1])
}
func DiA(a *TA)        { call("DiA", a) }
func DiB(b *TB)        { call("DiB", b) }
func DiC(c *TC)        { call("DiC", c) }
func DiD(d *TD)        { call("DiD", d) }
func DiCe(c *TC) error { return asErr(call("DiCe", c)[0]) }

// ring pieces (cycle rejections with distinct function ids)
func DrAB(b *TB) *TA { return call("DrAB", b)[0].Interface().(*TA) } // A needs B
func DrBC(c *TC) *TB { return call("DrBC", c)[0].Interface().(*TB) } // B needs C
func DrCA(a *TA) *TC { return call("DrCA", a)[0].Interface().(*TC) } // C needs A
func DB0() *TB       { return call("DB0")[0].Interface().(*TB) }
func DG22() OutTwoG  { return call("DG22")[0].Interface().(OutTwoG) } // two members of g
func DGb(b *TB) *TA  { return call("DGb", b)[0].Interface().(*TA) }   // group member that needs B

func init() {
	decl("DA", DA, F("", "", "A"))
	decl("DA2", DA2, F("", "", "A"))
	decl("DAe", DAe, F("", "", "A,error"))
	decl("DB", DB, F("", "A", "B"))
	decl("DBe", DBe, F("", "A", "B,error"))
	decl("DBn", DBn, F("", "", "B", Name("n")))
	decl("DC", DC, F("", "A,B", "C"))
	decl("DCe", DCe, F("", "B", "C,error"))
	decl("DCg", DCg, F("", "{A*g}", "C"))
	decl("DCge", DCge, F("", "{A*g}", "C,error"))
	decl("DCs", DCs, F("", "{A*g~}", "C"))
	decl("DCo", DCo, F("", "{A?}", "C"))
	decl("DCon", DCon, F("", "{A@n?}", "C"))
	decl("DCnb", DCnb, F("", "{B@n}", "C"))
	decl("DD", DD, F("", "C", "D"))
	decl("DDm", DDm, F("", "{A;B@n?;A*g}", "D"))
	decl("DG1", DG1, F("", "", "A", Group("g")))
	decl("DG2", DG2, F("", "", "A", Group("g")))
	decl("DG1e", DG1e, F("", "", "A,error", Group("g")))
	decl("DFl", DFl, F("", "", "[A]", GroupFlat("g", 2)))
	decl("DM", DM, F("", "", "{B@n;A+g}"))
	decl("DMf", DMf, F("", "", "{[A]+g!2}"))
	decl("DAB", DAB, F("", "", "A,B"))
	decl("DAsI", DAsI, F("", "", "A", As("IA")))
	decl("DAsII", DAsII, F("", "", "A", As("IA", "IAB")))
	decl("DdA", DdA, F("", "A", "A"))
	decl("DdAe", DdAe, F("", "A", "A,error"))
	decl("DdB", DdB, F("", "B", "B"))
	decl("DdBe", DdBe, F("", "A,B", "B,error"))
	decl("DdG", DdG, F("", "{A*g}", "{[A]!1+g}"))
	decl("DdGe", DdGe, F("", "{A*g}", "{[A]!1+g},error"))
	decl("DiA", DiA, F("", "A", ""))
	decl("DiB", DiB, F("", "B", ""))
	decl("DiC", DiC, F("", "C", ""))
	decl("DiD", DiD, F("", "D", ""))
	decl("DiCe", DiCe, F("", "C", "error"))
	decl("DrAB", DrAB, F("", "B", "A"))
	decl("DrBC", DrBC, F("", "C", "B"))
	decl("DrCA", DrCA, F("", "A", "C"))
	decl("DB0", DB0, F("", "", "B"))
	decl("DGb", DGb, F("", "B", "A", Group("g")))
	decl("DG22", DG22, F("", "", "{A+g;A+g}"))
}

// D returns (a copy of) the spec of a pool function, optionally modified.
func D(name string, opts ...func(*Func)) *Func {
	d := declared[name]
	if d == nil {
		panic("universe: no declared function " + name)
	}
	g := *d.Spec
	for _, o := range opts {
		o(&g)
	}
	return &g
}
