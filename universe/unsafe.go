package universe

import "unsafe"

// closurePtr returns the data word of an interface holding a func value: the
// closure pointer, which (unlike reflect.Value.Pointer) is unique per
// reflect.MakeFunc result.
func closurePtr(fn interface{}) uintptr {
	return uintptr((*[2]unsafe.Pointer)(unsafe.Pointer(&fn))[1])
}
