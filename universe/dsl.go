package universe

import (
	"fmt"
	"strings"
)

// F parses the compact notation used throughout the checks:
//
//	F("k1", "A,B?,{A@n?;A*g~;{C}}", "C,B@n,A+g,[A]+g!2,{A;B@n}", opts...)
//
// Params: T required, T? optional, T@n named, T*g group (only inside {..}),
// T*g~ soft group. Results: T, T@n (inside {..}), T+g, [T]+g!N flatten with N
// elements, {..} result object. Positional results take name/group from opts.
func F(id, params, results string, opts ...func(*Func)) *Func {
	f := &Func{ID: id}
	for _, s := range splitTop(params, ',') {
		f.Params = append(f.Params, parseParam(s))
	}
	errIdx := -1
	for _, s := range splitTop(results, ',') {
		if s == "error" {
			f.Err = true
			errIdx = len(f.Results)
			continue
		}
		f.Results = append(f.Results, parseResult(s))
	}
	if errIdx >= 0 && errIdx < len(f.Results) {
		f.ErrAt = errIdx + 1 // the error is not the last result
	}
	for _, o := range opts {
		o(f)
	}
	return f
}

func Name(n string) func(*Func)  { return func(f *Func) { f.OptName = n } }
func Group(g string) func(*Func) { return func(f *Func) { f.OptGroup = g } }
func GroupFlat(g string, n int) func(*Func) {
	return func(f *Func) { f.OptGroup = g + ",flatten"; f.FlatN = n }
}
func As(as ...string) func(*Func) { return func(f *Func) { f.As = as } }
func Export(f *Func)              { f.Export = true }
func Err(f *Func)                 { f.Err = true }
func Variadic(f *Func)            { f.Variadic = true }
func WithCallback(f *Func)        { f.Callback = true }
func WithInfo(f *Func)            { f.Info = true }
func OptsReversed(f *Func)        { f.OptsRev = true }
func SameValues(f *Func)          { f.SameVals = true }
func CustomErr(f *Func)           { f.Err, f.ErrCustom = true, true }
func LocationOf(decl string) func(*Func) {
	return func(f *Func) { f.LocPC = decl }
}

// With returns a copy of f with a new id and extra options applied.
func (f *Func) With(id string, opts ...func(*Func)) *Func {
	g := *f
	g.ID = id
	for _, o := range opts {
		o(&g)
	}
	return &g
}

func splitTop(s string, sep byte) []string {
	s = strings.TrimSpace(s)
	if s == "" {
		return nil
	}
	var out []string
	depth, start := 0, 0
	for i := 0; i < len(s); i++ {
		switch s[i] {
		case '{':
			depth++
		case '}':
			depth--
		case sep:
			if depth == 0 {
				out = append(out, strings.TrimSpace(s[start:i]))
				start = i + 1
			}
		}
	}
	return append(out, strings.TrimSpace(s[start:]))
}

func parseParam(s string) Param {
	if strings.HasPrefix(s, "{") {
		p := Param{Kind: PObject}
		for _, q := range splitTop(s[1:len(s)-1], ';') {
			p.Fields = append(p.Fields, parseParam(q))
		}
		return p
	}
	p := Param{Kind: PSingle}
	if strings.HasSuffix(s, "?") {
		p.Optional = true
		s = s[:len(s)-1]
	}
	if i := strings.IndexByte(s, '*'); i >= 0 {
		p.Kind = PGroup
		p.Group = s[i+1:]
		if j := strings.IndexByte(p.Group, '^'); j >= 0 { // "A*g^NS": the group taken as named slice NS
			p.SliceT = p.Group[j+1:]
			p.Group = p.Group[:j]
		}
		if strings.HasSuffix(p.Group, "~") {
			p.Soft = true
			p.Group = p.Group[:len(p.Group)-1]
		}
		s = s[:i]
	} else if i := strings.IndexByte(s, '@'); i >= 0 {
		p.Name = s[i+1:]
		s = s[:i]
	}
	p.Type = s
	return p
}

func parseResult(s string) Result {
	if strings.HasPrefix(s, "{") {
		r := Result{Kind: RObject}
		for _, q := range splitTop(s[1:len(s)-1], ';') {
			r.Fields = append(r.Fields, parseResult(q))
		}
		return r
	}
	r := Result{Kind: RSingle}
	if i := strings.IndexByte(s, '+'); i >= 0 {
		r.Kind = RGroup
		g := s[i+1:]
		s = s[:i]
		if j := strings.IndexByte(g, '!'); j >= 0 {
			r.Flatten = true
			fmt.Sscanf(g[j+1:], "%d", &r.N)
			g = g[:j]
			s = strings.TrimSuffix(strings.TrimPrefix(s, "["), "]")
		}
		r.Group = g
	} else if i := strings.IndexByte(s, '@'); i >= 0 {
		r.Name = s[i+1:]
		s = s[:i]
	}
	if j := strings.IndexByte(s, '!'); j >= 0 { // plain slice value with N elements: "[A]!2"
		fmt.Sscanf(s[j+1:], "%d", &r.N)
		s = s[:j]
	}
	r.Type = s
	return r
}
