// Package universe manufactures every user function handed to dig, so that
// every value carries provenance (a token) and every execution is logged.
package universe

import (
	"fmt"
	"reflect"
)

// Tok identifies one produced value: which function instance, which of its
// executions, which flattened result leaf, which element of a flatten slice.
type Tok struct {
	Fn     string
	Exec   int
	Slot   int
	Elem   int
	Serial int64
}

func (t Tok) IsZero() bool { return t.Fn == "" }
func (t Tok) String() string {
	if t.IsZero() {
		return "zero"
	}
	return fmt.Sprintf("%s.%d/%d.%d", t.Fn, t.Exec, t.Slot, t.Elem)
}

// Same reports whether two tokens denote the same produced value.
func (t Tok) Same(o Tok) bool { return t.Serial == o.Serial && t.Fn == o.Fn }

// Carrier is implemented by every value type of the universe.
type Carrier interface{ VTok() Tok }

type TA struct{ Tok Tok }
type TB struct{ Tok Tok }
type TC struct{ Tok Tok }
type TD struct{ Tok Tok }

func (p *TA) VTok() Tok {
	if p == nil {
		return Tok{}
	}
	return p.Tok
}
func (p *TB) VTok() Tok {
	if p == nil {
		return Tok{}
	}
	return p.Tok
}
func (p *TC) VTok() Tok {
	if p == nil {
		return Tok{}
	}
	return p.Tok
}
func (p *TD) VTok() Tok {
	if p == nil {
		return Tok{}
	}
	return p.Tok
}

// IA is implemented by *TA and *TB; IAB only by *TA.
type IA interface {
	Carrier
	MA()
}
type IAB interface {
	Carrier
	MA()
	MB()
}

func (*TA) MA() {}
func (*TA) MB() {}
func (*TA) MC() {}

// IC is a third interface *TA implements, unrelated to IA / IAB.
type IC interface{ MC() }

// CodedErr is an error result type that is not exactly `error`.
type CodedErr interface {
	error
	Code() int
}

func (*TB) MA() {}

// EI and ES implement error with value receivers and can never be nil.
type EI int

func (e EI) Error() string { return "ei" }

type ES struct{ X int }

func (e ES) Error() string { return "es" }

// NS is a named slice with a method: it implements IA-like interface INS.
type NS []*TA

func (NS) MN() {}

type INS interface{ MN() }

// Pad2 is a plain struct that embeds two plain structs: placed before the
// embedded dig.In of a parameter object it exercises the search for the
// marker among several embedded fields.
type (
	PadA struct{}
	PadB struct{}
	Pad2 struct {
		PadA
		PadB
	}
)

// NS2 is a second, distinct named slice over the same element type.
type NS2 []*TA

func (NS2) M2() {}

var (
	tA        = reflect.TypeOf((*TA)(nil))
	tB        = reflect.TypeOf((*TB)(nil))
	tC        = reflect.TypeOf((*TC)(nil))
	tD        = reflect.TypeOf((*TD)(nil))
	tIA       = reflect.TypeOf((*IA)(nil)).Elem()
	tIAB      = reflect.TypeOf((*IAB)(nil)).Elem()
	tNS       = reflect.TypeOf(NS(nil))
	tINS      = reflect.TypeOf((*INS)(nil)).Elem()
	tNS2      = reflect.TypeOf(NS2(nil))
	tPad2     = reflect.TypeOf(Pad2{})
	tIC       = reflect.TypeOf((*IC)(nil)).Elem()
	tCodedErr = reflect.TypeOf((*CodedErr)(nil)).Elem()
	tErr      = reflect.TypeOf((*error)(nil)).Elem()
	tInt      = reflect.TypeOf(int(0))
)

// TypeOf maps a type code to the Go type. "[X]" is a slice of X.
func TypeOf(code string) reflect.Type {
	if len(code) > 2 && code[0] == '[' && code[len(code)-1] == ']' {
		return reflect.SliceOf(TypeOf(code[1 : len(code)-1]))
	}
	switch code {
	case "A":
		return tA
	case "B":
		return tB
	case "C":
		return tC
	case "D":
		return tD
	case "IA":
		return tIA
	case "IAB":
		return tIAB
	case "NS":
		return tNS
	case "INS":
		return tINS
	case "NS2":
		return tNS2
	case "Pad2":
		return tPad2
	case "IC":
		return tIC
	case "int":
		return tInt
	case "error":
		return tErr
	}
	panic("universe: unknown type code " + code)
}

// SliceElem reports the element type code of a slice type code: "[X]" -> X,
// the named slices NS / NS2 -> A.
func SliceElem(code string) (string, bool) {
	if len(code) > 2 && code[0] == '[' && code[len(code)-1] == ']' {
		return code[1 : len(code)-1], true
	}
	switch code {
	case "NS", "NS2":
		return "A", true
	}
	return "", false
}

// AsPtr returns a value suitable for dig.As for an interface type code.
func AsPtr(code string) interface{} {
	switch code {
	case "IA":
		return new(IA)
	case "IAB":
		return new(IAB)
	case "INS":
		return new(INS)
	case "IC":
		return new(IC)
	}
	panic("universe: AsPtr of non-interface " + code)
}

// Implements: does concrete/interface type code t implement interface code i.
func Implements(t, i string) bool {
	return TypeOf(t).Implements(TypeOf(i))
}

// newValue builds a value of the given (non-slice) type carrying tok.
func newValue(code string, tok Tok) reflect.Value {
	switch code {
	case "A":
		return reflect.ValueOf(&TA{Tok: tok})
	case "B":
		return reflect.ValueOf(&TB{Tok: tok})
	case "C":
		return reflect.ValueOf(&TC{Tok: tok})
	case "D":
		return reflect.ValueOf(&TD{Tok: tok})
	case "IA":
		v := reflect.New(tIA).Elem()
		v.Set(reflect.ValueOf(&TA{Tok: tok}))
		return v
	case "IAB":
		v := reflect.New(tIAB).Elem()
		v.Set(reflect.ValueOf(&TA{Tok: tok}))
		return v
	}
	panic("universe: newValue of " + code)
}

// tokOf extracts the token of a single (non-slice) value; zero Tok if nil.
func tokOf(v reflect.Value) Tok {
	if !v.IsValid() {
		return Tok{}
	}
	switch v.Kind() {
	case reflect.Ptr, reflect.Interface:
		if v.IsNil() {
			return Tok{}
		}
	case reflect.Slice:
		// a slice-typed single value is identified by its first element
		if v.Len() == 0 {
			return Tok{}
		}
		return tokOf(v.Index(0))
	}
	if c, ok := v.Interface().(Carrier); ok {
		return c.VTok()
	}
	return Tok{Fn: "?" + v.Type().String()}
}

// CanonValue renders a cached value by provenance, never by address.
func CanonValue(v reflect.Value) string {
	if !v.IsValid() {
		return "invalid"
	}
	if v.Kind() == reflect.Slice {
		s := "["
		for i := 0; i < v.Len(); i++ {
			s += tokOf(v.Index(i)).String() + ","
		}
		if v.IsNil() {
			return "nil" + s + "]"
		}
		return s + "]"
	}
	return tokOf(v).String()
}
