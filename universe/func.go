package universe

import (
	"fmt"
	"reflect"
	"strings"
	"time"

	"go.uber.org/dig"
)

// ---------------------------------------------------------------- specs

type PKind int

const (
	PSingle PKind = iota
	PGroup
	PObject
)

// Param describes one parameter (positional) or one field of a dig.In object.
type Param struct {
	Kind     PKind
	Type     string // type code; for PGroup the element type
	Name     string
	Optional bool
	Group    string
	Soft     bool
	SliceT   string  // PGroup: type code of a named slice carrying the group ("" = plain []T)
	Fields   []Param // PObject
	Tag      string  // raw struct tag overriding the generated one (bad-input grammars)
	// Embed (PObject): where the embedded dig.In sits. 0 first; 1 last; 2
	// after an embedded plain struct Pad2 (which itself embeds two structs and
	// is an optional dependency of its own); 3 after the first field; 4 / 5:
	// `ignore-unexported:"true"` with an unexported field before the embed /
	// between the embed and the exported fields.
	Embed int
}

type RKind int

const (
	RSingle RKind = iota
	RGroup
	RObject
)

// Result describes one result (positional) or one field of a dig.Out object.
// For positional results name/group/As come from the Provide options of Func.
type Result struct {
	Kind    RKind
	Type    string // type code of the produced value; flatten: element type
	Name    string // field tag (objects only)
	Group   string // field tag (objects only)
	Flatten bool   // field tag (objects only); value is a slice of Type
	N       int    // number of elements for flatten results
	Fields  []Result
	Tag     string // raw struct tag overriding the generated one
	Embed   int    // RObject: position of the embedded dig.Out (0 first, 1 last, 3 after the first field)
}

// Func is the specification of one user function plus the options it is
// registered with.
type Func struct {
	ID       string
	Params   []Param
	Results  []Result
	Variadic bool
	Err      bool // has an error result (last, unless ErrAt says otherwise)
	ErrAt    int  // 1-based output position of the error result; 0 = last
	// ErrCustom: the error result is declared as the interface type CodedErr
	// (embeds error) instead of error itself.
	ErrCustom bool
	// LocPC: name of a declared pool function whose entry pc is passed to
	// dig.LocationForPC when this function is provided (the location dig
	// reports is then that function's; its identity must not change).
	LocPC string

	OptName  string   // dig.Name
	OptGroup string   // dig.Group (may carry ",flatten")
	As       []string // dig.As interface codes
	Export   bool
	Callback bool
	Info     bool
	OptsRev  bool   // the dig options are passed in the reverse of the harness's usual order
	SameVals bool   // all values of one type produced by one execution are the very same value (equal members)
	FlatN    int    // element count for a positional flatten result
	Decl     string `json:",omitempty"` // name of a declared pool function to use instead of reflect.MakeFunc
}

// Key is the model's notion of dig's key.
type Key struct {
	T     string
	Name  string
	Group string
}

func (k Key) String() string {
	s := k.T
	if k.Name != "" {
		s += "@" + k.Name
	}
	if k.Group != "" {
		s += "*" + k.Group
	}
	return s
}
func (k Key) IsGroup() bool { return k.Group != "" }

// PLeaf is one flattened dependency of a function.
type PLeaf struct {
	Key      Key
	Optional bool
	Soft     bool
	Obj      int // id of the innermost enclosing object (-1 positional)
	ObjPath  []int
	Pos      int // index of the top-level parameter this leaf belongs to
}

// RLeaf is one flattened produced value (possibly stored under several keys).
type RLeaf struct {
	Keys    []Key
	Type    string // concrete type code produced
	Flatten bool
	N       int
}

// PLeaves flattens the parameters in declaration order.
func (f *Func) PLeaves() []PLeaf {
	var out []PLeaf
	obj := 0
	var walk func(p Param, cur int, path []int, pos int)
	walk = func(p Param, cur int, path []int, pos int) {
		switch p.Kind {
		case PSingle:
			out = append(out, PLeaf{Key: Key{T: p.Type, Name: p.Name}, Optional: p.Optional, Obj: cur, ObjPath: path, Pos: pos})
		case PGroup:
			out = append(out, PLeaf{Key: Key{T: p.Type, Group: p.Group}, Soft: p.Soft, Obj: cur, ObjPath: path, Pos: pos})
		case PObject:
			obj++
			me := obj
			np := append(append([]int{}, path...), me)
			if p.Embed == 2 {
				out = append(out, PLeaf{Key: Key{T: "Pad2"}, Optional: true, Obj: me, ObjPath: np, Pos: pos})
			}
			for _, q := range p.Fields {
				walk(q, me, np, pos)
			}
		}
	}
	for i, p := range f.Params {
		walk(p, -1, nil, i)
	}
	return out
}

func groupName(s string) (name string, flatten bool) {
	parts := strings.Split(s, ",")
	for _, p := range parts[1:] {
		if p == "flatten" {
			flatten = true
		}
	}
	return parts[0], flatten
}

// RLeaves flattens the results in declaration order, applying the Provide
// options to positional results the way dig documents them.
func (f *Func) RLeaves() []RLeaf {
	var out []RLeaf
	var walk func(r Result, top bool)
	walk = func(r Result, top bool) {
		switch r.Kind {
		case RObject:
			for _, q := range r.Fields {
				walk(q, false)
			}
		case RSingle, RGroup:
			name, group, flatten, n := r.Name, r.Group, r.Flatten, r.N
			typ := r.Type
			if top {
				name = f.OptName
				if f.OptGroup != "" {
					group, flatten = groupName(f.OptGroup)
					if flatten {
						n = f.FlatN
						typ = strings.TrimSuffix(strings.TrimPrefix(typ, "["), "]")
					}
				}
			} else if name == "" {
				// dig passes the Name option down to untagged fields, but
				// rejects Name/Group options for result objects, so nothing
				// to inherit here.
			}
			types := []string{typ}
			// dig.As is documented as not meant for result objects; where it
			// is accepted anyway it re-keys the plain fields only, a
			// group-tagged field keeps its own element type (DESIGN §3.6-9).
			if len(f.As) > 0 && (top || group == "") {
				types = append([]string{}, f.As...)
			}
			var keys []Key
			for _, t := range types {
				keys = append(keys, Key{T: t, Name: name, Group: group})
			}
			out = append(out, RLeaf{Keys: keys, Type: typ, Flatten: flatten, N: n})
		}
	}
	for _, r := range f.Results {
		walk(r, true)
	}
	return out
}

// ---------------------------------------------------------------- runtime

type Beh int

const (
	BehOK Beh = iota
	BehErr
	BehPanic
	BehErrVals // returns non-nil values together with a non-nil error
	// BehPanicDigErr: panics with a value that is an error and wraps one of
	// dig's own errors (a cycle rejection obtained from a helper container) —
	// what a must-style helper re-raising a dig error with panic(err) does.
	// Logged as a panic (Outcome BehPanic).
	BehPanicDigErr
	// BehPanicWrapsPanicErr: panics with an error value that wraps a
	// dig.PanicError obtained from a helper container (what re-raising the error
	// of a nested Invoke with panic(err) does). Logged as a panic.
	BehPanicWrapsPanicErr
	// BehErrZero: returns (zero values and) an error whose dynamic value is
	// the zero value of a non-pointer type (ZeroErr{}, like a sentinel
	// `type errX struct{}` or context.DeadlineExceeded): a failure all the
	// same. It carries no identity; logged with Outcome BehErrZero.
	BehErrZero
)

// ZeroErr is an error that is the zero value of a struct type.
type ZeroErr struct{}

func (ZeroErr) Error() string { return "zeroerr" }
func (ZeroErr) Code() int     { return 0 }

func (b Beh) String() string {
	return [...]string{"ok", "err", "panic", "errvals", "panicdigerr", "panicwrapspanicerr", "errzero"}[b]
}

var digPanicErr error

// samplePanicError returns an error produced by dig for a recovered panic of
// some other function in a helper container (its chain contains a
// dig.PanicError carrying the helper's panic value).
func samplePanicError() error {
	if digPanicErr == nil {
		c := dig.New(dig.RecoverFromPanics())
		digPanicErr = c.Invoke(func() { panic("inner panic of a helper container") })
		if digPanicErr == nil {
			panic("universe: helper container did not report the panic")
		}
	}
	return digPanicErr
}

// PanicErrVal is a panic value that is also an error wrapping a dig error.
type PanicErrVal struct {
	*PanicVal
	Wrapped error
}

func (p *PanicErrVal) Error() string { return "panic value wrapping: " + p.Wrapped.Error() }
func (p *PanicErrVal) Unwrap() error { return p.Wrapped }

// AsPanicVal extracts the identity-carrying PanicVal from a recovered value.
func AsPanicVal(p interface{}) (*PanicVal, bool) {
	switch x := p.(type) {
	case *PanicVal:
		return x, true
	case *PanicErrVal:
		return x.PanicVal, true
	}
	return nil, false
}

var digCycleErr error

// sampleDigError returns a genuine dig cycle rejection (IsCycleDetected is
// true for it, its root cause is a dig.Error).
func sampleDigError() error {
	if digCycleErr == nil {
		c := dig.New()
		_ = c.Provide(func(int) string { return "" })
		digCycleErr = c.Provide(func(string) int { return 0 })
		if digCycleErr == nil {
			panic("universe: helper container accepted a cycle")
		}
	}
	return digCycleErr
}

// UserErr is the error a user function returns; identity matters.
type UserErr struct {
	Fn   string
	Exec int
}

func (e *UserErr) Error() string { return fmt.Sprintf("usererr(%s.%d)", e.Fn, e.Exec) }
func (e *UserErr) Code() int     { return e.Exec }

func (f *Func) errType() reflect.Type {
	if f.ErrCustom {
		return tCodedErr
	}
	return tErr
}

// PanicVal is the value a user function panics with; identity matters.
type PanicVal struct {
	Fn   string
	Exec int
}

type EvKind int

const (
	EvEnter EvKind = iota
	EvExit
	EvCallback
)

type ArgObs struct {
	Leaf   int
	Toks   []Tok // single: exactly one (possibly zero); group: elements
	NilSl  bool  // group slice was nil
	IsZero bool  // single: zero value
}

type Event struct {
	Kind    EvKind
	Fn      string
	Exec    int
	Args    []ArgObs // EvEnter
	Outcome Beh      // EvExit
	Results [][]Tok  // EvExit: per result leaf
	Err     *UserErr
	Panic   *PanicVal
	// EvCallback
	CBName    string
	CBErr     error
	CBRuntime time.Duration
	At        time.Duration // clock reading when logged
}

// Clock is the harness-driven clock handed to dig.
type Clock struct{ now time.Time }

var epoch = time.Unix(1_000_000, 0)

func NewClock() *Clock                           { return &Clock{now: epoch} }
func (c *Clock) Now() time.Time                  { return c.now }
func (c *Clock) Since(t time.Time) time.Duration { return c.now.Sub(t) }
func (c *Clock) Advance(d time.Duration)         { c.now = c.now.Add(d) }
func (c *Clock) Elapsed() time.Duration          { return c.now.Sub(epoch) }

// Runtime is the per-container-run harness state shared by all functions.
type Runtime struct {
	Log      []Event
	Execs    map[string]int
	Plans    map[string][]Beh // by spec ID or instance ID (instance wins)
	Costs    map[string]time.Duration
	serial   int64
	Clock    *Clock
	labels   map[uintptr]string
	Depth    int // current nesting of user functions (should stay ≤1)
	MaxDepth int
	// OnBody, when set, is called from inside every user function body (after
	// its arguments were logged): the harness uses it for ops a function
	// performs itself.
	OnBody func(inst string, exec int)
}

func NewRuntime() *Runtime {
	return &Runtime{
		Execs:  map[string]int{},
		Plans:  map[string][]Beh{},
		Costs:  map[string]time.Duration{},
		Clock:  NewClock(),
		labels: map[uintptr]string{},
	}
}

func specID(inst string) string {
	if i := strings.IndexByte(inst, '#'); i >= 0 {
		return inst[:i]
	}
	return inst
}

func (rt *Runtime) planFor(inst string, exec int) Beh {
	p, ok := rt.Plans[inst]
	if !ok {
		p = rt.Plans[specID(inst)]
	}
	if len(p) == 0 {
		return BehOK
	}
	if exec >= len(p) {
		return p[len(p)-1]
	}
	return p[exec]
}

// Cost is the distinctive amount of mock time the body of fn takes.
func (rt *Runtime) Cost(inst string) time.Duration {
	if c, ok := rt.Costs[inst]; ok {
		return c
	}
	// distinctive per function: derived from the id
	h := uint64(1469598103934665603)
	for i := 0; i < len(inst); i++ {
		h = (h ^ uint64(inst[i])) * 1099511628211
	}
	c := time.Duration(1000+h%100000) * time.Nanosecond
	rt.Costs[inst] = c
	return c
}

var (
	inType  = reflect.TypeOf(dig.In{})
	outType = reflect.TypeOf(dig.Out{})
)

// placeMarker inserts the embedded dig.In / dig.Out into the field list.
func placeMarker(fields []reflect.StructField, marker reflect.StructField, style int) []reflect.StructField {
	switch style {
	case 1:
		return append(fields, marker)
	case 2:
		pad := reflect.StructField{Name: "Pad2", Type: tPad2, Anonymous: true, Tag: `optional:"true"`}
		return append([]reflect.StructField{pad, marker}, fields...)
	case 3:
		if len(fields) > 0 {
			out := append([]reflect.StructField{fields[0], marker}, fields[1:]...)
			return out
		}
	case 4, 5:
		// dig.In `ignore-unexported:"true"` with an unexported field declared
		// before the embed (4) or right after it, before the exported fields (5)
		marker.Tag = `ignore-unexported:"true"`
		hidden := reflect.StructField{Name: "hidden", PkgPath: "verif/universe", Type: tA}
		if style == 4 {
			return append([]reflect.StructField{hidden, marker}, fields...)
		}
		return append([]reflect.StructField{marker, hidden}, fields...)
	}
	return append([]reflect.StructField{marker}, fields...)
}

func paramType(p Param) reflect.Type {
	switch p.Kind {
	case PSingle:
		return TypeOf(p.Type)
	case PGroup:
		if p.SliceT != "" {
			return TypeOf(p.SliceT)
		}
		return reflect.SliceOf(TypeOf(p.Type))
	case PObject:
		var fields []reflect.StructField
		for i, q := range p.Fields {
			var tags []string
			if q.Kind == PSingle {
				if q.Name != "" {
					tags = append(tags, fmt.Sprintf(`name:"%s"`, q.Name))
				}
				if q.Optional {
					tags = append(tags, `optional:"true"`)
				}
			}
			if q.Kind == PGroup {
				g := q.Group
				if q.Soft {
					g += ",soft"
				}
				tags = append(tags, fmt.Sprintf(`group:"%s"`, g))
			}
			tag := strings.Join(tags, " ")
			if q.Tag != "" {
				tag = q.Tag
			}
			fields = append(fields, reflect.StructField{
				Name: fmt.Sprintf("F%d", i),
				Type: paramType(q),
				Tag:  reflect.StructTag(tag),
			})
		}
		return reflect.StructOf(placeMarker(fields, reflect.StructField{Name: "In", Type: inType, Anonymous: true}, p.Embed))
	}
	panic("paramType")
}

func resultType(r Result) reflect.Type {
	switch r.Kind {
	case RSingle:
		return TypeOf(r.Type)
	case RGroup:
		if r.Flatten {
			return reflect.SliceOf(TypeOf(r.Type))
		}
		return TypeOf(r.Type)
	case RObject:
		var fields []reflect.StructField
		for i, q := range r.Fields {
			var tags []string
			if q.Kind == RSingle && q.Name != "" {
				tags = append(tags, fmt.Sprintf(`name:"%s"`, q.Name))
			}
			if q.Kind == RGroup {
				g := q.Group
				if q.Flatten {
					g += ",flatten"
				}
				tags = append(tags, fmt.Sprintf(`group:"%s"`, g))
			}
			tag := strings.Join(tags, " ")
			if q.Tag != "" {
				tag = q.Tag
			}
			fields = append(fields, reflect.StructField{
				Name: fmt.Sprintf("F%d", i),
				Type: resultType(q),
				Tag:  reflect.StructTag(tag),
			})
		}
		return reflect.StructOf(placeMarker(fields, reflect.StructField{Name: "Out", Type: outType, Anonymous: true}, r.Embed))
	}
	panic("resultType")
}

// errIndex is the position of the error result among the function's outputs
// (ErrAt-1 if set, else last).
func (f *Func) errIndex() int {
	if f.ErrAt > 0 && f.ErrAt-1 <= len(f.Results) {
		return f.ErrAt - 1
	}
	return len(f.Results)
}

func insertAt[T any](s []T, i int, v T) []T {
	s = append(s, v)
	copy(s[i+1:], s[i:])
	s[i] = v
	return s
}

// FuncType is the Go function type of a spec.
func (f *Func) FuncType() reflect.Type {
	var in, out []reflect.Type
	for _, p := range f.Params {
		in = append(in, paramType(p))
	}
	if f.Variadic {
		in = append(in, reflect.SliceOf(tInt))
	}
	for _, r := range f.Results {
		// a positional result with Group(",flatten") option is declared as a slice
		out = append(out, resultType(r))
	}
	if f.Err {
		out = insertAt(out, f.errIndex(), f.errType())
	}
	return reflect.FuncOf(in, out, f.Variadic)
}

// Make manufactures the Go function for spec f under instance name inst.
func (rt *Runtime) Make(f *Func, inst string) interface{} {
	ft := f.FuncType()
	fn := reflect.MakeFunc(ft, func(args []reflect.Value) []reflect.Value {
		return rt.Body(f, inst, ft, args)
	})
	i := fn.Interface()
	rt.labels[closurePtr(i)] = inst
	return i
}

// Register associates a declared (non-MakeFunc) function with an instance name.
func (rt *Runtime) Register(fn interface{}, inst string) { rt.labels[closurePtr(fn)] = inst }

// Label names a function value previously made by this runtime.
func (rt *Runtime) Label(fn interface{}) string {
	if fn == nil {
		return "nil"
	}
	if reflect.TypeOf(fn).Kind() != reflect.Func {
		return "nonfunc"
	}
	if l, ok := rt.labels[closurePtr(fn)]; ok {
		return l
	}
	return "unknown:" + reflect.TypeOf(fn).String()
}

func collectArgs(ps []Param, args []reflect.Value) []ArgObs {
	var out []ArgObs
	leaf := 0
	var walk func(p Param, v reflect.Value)
	walk = func(p Param, v reflect.Value) {
		switch p.Kind {
		case PSingle:
			t := tokOf(v)
			out = append(out, ArgObs{Leaf: leaf, Toks: []Tok{t}, IsZero: t.IsZero()})
			leaf++
		case PGroup:
			a := ArgObs{Leaf: leaf, NilSl: v.IsNil()}
			for i := 0; i < v.Len(); i++ {
				a.Toks = append(a.Toks, tokOf(v.Index(i)))
			}
			out = append(out, a)
			leaf++
		case PObject:
			if p.Embed == 2 {
				out = append(out, ArgObs{Leaf: leaf, Toks: []Tok{{}}, IsZero: true})
				leaf++
			}
			for i, q := range p.Fields {
				walk(q, v.FieldByName(fmt.Sprintf("F%d", i)))
			}
		}
	}
	for i, p := range ps {
		walk(p, args[i])
	}
	return out
}

// Body is the one generic body behind every user function.
func (rt *Runtime) Body(f *Func, inst string, ft reflect.Type, args []reflect.Value) []reflect.Value {
	exec := rt.Execs[inst]
	rt.Execs[inst] = exec + 1
	rt.Depth++
	if rt.Depth > rt.MaxDepth {
		rt.MaxDepth = rt.Depth
	}
	defer func() { rt.Depth-- }()
	rt.Log = append(rt.Log, Event{Kind: EvEnter, Fn: inst, Exec: exec, Args: collectArgs(f.Params, args), At: rt.Clock.Elapsed()})
	rt.Clock.Advance(rt.Cost(inst))
	if rt.OnBody != nil {
		rt.OnBody(inst, exec)
	}
	beh := rt.planFor(inst, exec)
	if beh == BehPanic {
		pv := &PanicVal{Fn: inst, Exec: exec}
		rt.Log = append(rt.Log, Event{Kind: EvExit, Fn: inst, Exec: exec, Outcome: BehPanic, Panic: pv, At: rt.Clock.Elapsed()})
		panic(pv)
	}
	if beh == BehPanicDigErr || beh == BehPanicWrapsPanicErr {
		pv := &PanicVal{Fn: inst, Exec: exec}
		rt.Log = append(rt.Log, Event{Kind: EvExit, Fn: inst, Exec: exec, Outcome: BehPanic, Panic: pv, At: rt.Clock.Elapsed()})
		w := sampleDigError()
		if beh == BehPanicWrapsPanicErr {
			w = samplePanicError()
		}
		panic(&PanicErrVal{PanicVal: pv, Wrapped: w})
	}
	if (beh == BehErr || beh == BehErrVals || beh == BehErrZero) && !f.Err {
		// a function without an error result cannot fail by error: it panics instead
		pv := &PanicVal{Fn: inst, Exec: exec}
		rt.Log = append(rt.Log, Event{Kind: EvExit, Fn: inst, Exec: exec, Outcome: BehPanic, Panic: pv, At: rt.Clock.Elapsed()})
		panic(pv)
	}
	out := make([]reflect.Value, 0, ft.NumOut())
	var toks [][]Tok
	slot := 0
	type made struct {
		v   reflect.Value
		tok Tok
	}
	same := map[string]made{}
	mk := func(code string, elem int) reflect.Value {
		if m, ok := same[code]; ok && f.SameVals {
			toks[len(toks)-1] = append(toks[len(toks)-1], m.tok)
			return m.v
		}
		rt.serial++
		tok := Tok{Fn: inst, Exec: exec, Slot: slot, Elem: elem, Serial: rt.serial}
		toks[len(toks)-1] = append(toks[len(toks)-1], tok)
		v := newValue(code, tok)
		same[code] = made{v, tok}
		return v
	}
	var build func(r Result, t reflect.Type, top bool) reflect.Value
	build = func(r Result, t reflect.Type, top bool) reflect.Value {
		switch r.Kind {
		case RObject:
			v := reflect.New(t).Elem()
			for i, q := range r.Fields {
				fv := v.FieldByName(fmt.Sprintf("F%d", i))
				fv.Set(build(q, fv.Type(), false))
			}
			return v
		default:
			toks = append(toks, nil)
			defer func() { slot++ }()
			if beh == BehErr || beh == BehErrZero {
				return reflect.Zero(t)
			}
			flatten, n := r.Flatten, r.N
			if top && f.OptGroup != "" {
				if _, fl := groupName(f.OptGroup); fl {
					flatten, n = true, f.FlatN
				}
			}
			if ec, isSlice := SliceElem(r.Type); t.Kind() == reflect.Slice && (flatten || isSlice) {
				code := r.Type
				if isSlice {
					code = ec
				}
				if !flatten {
					n = r.N
				}
				sl := reflect.MakeSlice(t, 0, n)
				for i := 0; i < n; i++ {
					sl = reflect.Append(sl, mk(code, i))
				}
				return sl
			}
			return mk(r.Type, 0)
		}
	}
	for i, r := range f.Results {
		oi := i
		if f.Err && i >= f.errIndex() {
			oi++
		}
		out = append(out, build(r, ft.Out(oi), true))
	}
	ev := Event{Kind: EvExit, Fn: inst, Exec: exec, Outcome: beh, Results: toks}
	if f.Err {
		if beh == BehOK {
			out = insertAt(out, f.errIndex(), reflect.Zero(f.errType()))
		} else if beh == BehErrZero {
			e := reflect.New(f.errType()).Elem()
			e.Set(reflect.ValueOf(ZeroErr{}))
			out = insertAt(out, f.errIndex(), e)
		} else {
			ue := &UserErr{Fn: inst, Exec: exec}
			ev.Err = ue
			ev.Results = toks
			e := reflect.New(f.errType()).Elem()
			e.Set(reflect.ValueOf(ue))
			out = insertAt(out, f.errIndex(), e)
		}
	}
	ev.At = rt.Clock.Elapsed()
	rt.Log = append(rt.Log, ev)
	return out
}
