// digmc: bounded exhaustive model checking of uber-go/dig (see DESIGN.md).
package main

import (
	"encoding/json"
	"flag"
	"fmt"
	"os"
	"path/filepath"
	"runtime"
	"sort"
	"strconv"
	"strings"
	"time"

	_ "verif/checks"
	"verif/explore"
)

func verifDir() string {
	if d := os.Getenv("VERIF_DIR"); d != "" {
		return d
	}
	exe, err := os.Executable()
	if err == nil {
		d := filepath.Dir(filepath.Dir(exe))
		if _, err := os.Stat(filepath.Join(d, "properties.jsonl")); err == nil {
			return d
		}
	}
	wd, _ := os.Getwd()
	return wd
}

func main() {
	if len(os.Args) < 2 {
		fmt.Fprintln(os.Stderr, "usage: digmc check <id> [-tier quick|thorough] | worker <id> <tier> | replay <file> | list")
		os.Exit(2)
	}
	switch os.Args[1] {
	case "list":
		ids := explore.IDs()
		sort.Strings(ids)
		fmt.Println(strings.Join(ids, " "))
	case "worker":
		c := explore.Lookup(os.Args[2])
		if c == nil {
			explore.Fatalf("unknown check %s", os.Args[2])
		}
		explore.WorkerMain(c, os.Args[3], os.Stdin, os.Stdout)
	case "check":
		fs := flag.NewFlagSet("check", flag.ExitOnError)
		tier := fs.String("tier", envOr("VERIF_TIER", "quick"), "quick|thorough")
		defWorkers := runtime.NumCPU()
		if v, err := strconv.Atoi(os.Getenv("VERIF_WORKERS")); err == nil && v > 0 {
			defWorkers = v
		}
		workers := fs.Int("workers", defWorkers, "worker processes (default: all cores, or VERIF_WORKERS)")
		budget := fs.Duration("budget", 0, "time budget (0 = tier default)")
		verbose := fs.Bool("v", false, "progress on stderr")
		id := os.Args[2]
		fs.Parse(os.Args[3:])
		c := explore.Lookup(id)
		if c == nil {
			explore.Fatalf("unknown check %s", id)
		}
		if *budget == 0 {
			*budget = 6 * time.Minute
			if *tier == "thorough" {
				*budget = 15 * time.Minute
			}
		}
		seed, _ := strconv.Atoi(envOr("VERIF_SEED", "0"))
		self, _ := os.Executable()
		m := &explore.Master{Check: c, Tier: *tier, Self: self, Workers: *workers, Deadline: time.Now().Add(*budget), Verbose: *verbose}
		os.Exit(m.Run(verifDir(), seed))
	case "replay":
		b, err := os.ReadFile(os.Args[2])
		if err != nil {
			explore.Fatalf("%v", err)
		}
		var rp explore.Replay
		if err := json.Unmarshal(b, &rp); err != nil {
			explore.Fatalf("%v", err)
		}
		c := explore.Lookup(rp.Property)
		if c == nil {
			explore.Fatalf("unknown check %s", rp.Property)
		}
		os.Exit(explore.ReplayFile(c, rp))
	default:
		explore.Fatalf("unknown command %s", os.Args[1])
	}
}

func envOr(k, d string) string {
	if v := os.Getenv(k); v != "" {
		return v
	}
	return d
}
