#!/bin/bash
# usage: scripts/check_tree.sh <dig-tree> <property-id> [quick|thorough] [extra digmc args]
# Development helper (NOT a registered check): builds the checker against a
# scratch copy / worktree of uber-go/dig instead of /repo and runs one check
# with its evidence redirected to a temporary directory, so that seeded
# changes can be tried without touching /repo and several can run side by side.
set -u
cd "$(dirname "$0")/.."
export GOFLAGS=-mod=mod GOPROXY=off GOSUMDB=off GOTOOLCHAIN=local
export VERIF_DIR="$PWD"
TREE=$(realpath "$1"); ID=$2; TIER=${3:-quick}; shift; shift; shift 2>/dev/null
TAG=$(echo "$TREE" | md5sum | cut -c1-8)
mkdir -p bin
sed "s#=> /repo#=> $TREE#" go.mod > bin/alt.$TAG.mod
cp go.sum bin/alt.$TAG.sum
if ! go build -modfile=bin/alt.$TAG.mod -tags verif -o bin/digmc.$TAG ./cmd/digmc 2> bin/build.$TAG.err; then
  cat bin/build.$TAG.err >&2; echo "build failed" >&2; exit 2
fi
EV=$(mktemp -d)
VERIF_EVIDENCE_DIR=$EV ./bin/digmc.$TAG check "$ID" -tier "$TIER" "$@"
RC=$?
if [ -n "${KEEP_REPLAYS:-}" ]; then mkdir -p "$KEEP_REPLAYS"; cp -r $EV/replays/. "$KEEP_REPLAYS"/ 2>/dev/null; fi
rm -rf "$EV" bin/alt.$TAG.mod bin/alt.$TAG.sum bin/build.$TAG.err
exit $RC
