#!/bin/bash
# usage: scripts/mutants_all.sh [map-file] [tier]
# Development helper: for every line "<patch-name> <property-id>..." of the map
# (default mutants/MAP.tsv) applies mutants/<patch-name>.patch to a scratch
# worktree of /repo (never to /repo itself), runs the named checks on it and
# prints DETECTED / MISSED per (mutant, check). The scratch worktree is removed.
cd "$(dirname "$0")/.."
MAP=$(realpath ${1:-mutants/MAP.tsv}); TIER=${2:-quick}
T=$(mktemp -d /tmp/mutwt.XXXXXX)
# run from a snapshot of the framework so that edits made meanwhile do not
# disturb (or break the build of) a long sweep
mkdir "$T/verif"; rsync -a --exclude bin --exclude evidence --exclude .git ./ "$T/verif/"; cd "$T/verif"
git -C /repo worktree add --detach "$T/w" HEAD >/dev/null 2>&1 || exit 2
trap 'git -C /repo worktree remove --force "$T/w"; rm -rf "$T"' EXIT
while read -r NAME IDS; do
  [ -z "$NAME" ] && continue
  P=$PWD/mutants/$NAME.patch; [ -f "$P" ] || P=$(realpath $NAME)
  git -C "$T/w" checkout -q -- . ; git -C "$T/w" clean -fdq
  if ! git -C "$T/w" apply --recount "$P" 2>/dev/null; then echo "$NAME PATCH-DOES-NOT-APPLY"; continue; fi
  for ID in $IDS; do
    S=$(date +%s)
    OUT=$(scripts/check_tree.sh "$T/w" $ID $TIER 2>/dev/null); RC=$?
    N=$(echo "$OUT" | grep -c "^VIOLATION property=$ID")
    R=$(echo "$OUT" | grep -o "rule=[^ ]*" | sort | uniq -c | sort -rn | head -3 | awk '{printf "%s(%s) ",$2,$1}')
    if [ $N -gt 0 ]; then echo "$NAME $ID DETECTED rc=$RC t=$(( $(date +%s)-S ))s $R"; else echo "$NAME $ID MISSED rc=$RC t=$(( $(date +%s)-S ))s"; fi
  done
done < "$MAP"
