#!/bin/bash
# usage: scripts/check.sh <property-id> [quick|thorough]
# Rebuilds the checker against /repo's current working tree (hooks enabled by
# the "verif" build tag) and runs the property's check.
set -u
cd "$(dirname "$0")/.."
export GOFLAGS=-mod=mod GOPROXY=off GOSUMDB=off GOTOOLCHAIN=local
export VERIF_DIR="$PWD"
ID=$1
TIER=${2:-${VERIF_TIER:-quick}}
mkdir -p bin evidence
if ! go build -tags verif -o bin/digmc ./cmd/digmc 2> bin/build.err; then
  cat bin/build.err >&2
  echo "build failed" >&2
  exit 2
fi
exec ./bin/digmc check "$ID" -tier "$TIER"
