#!/bin/bash
# Runs the repository's own test suite with the verif guard OFF and checks that
# every test in /root/.vp/BASELINE.json's stable_pass list passes.
# usage: baseline.sh [repo-dir]
export GOFLAGS=-mod=mod GOPROXY=off GOSUMDB=off GOTOOLCHAIN=local
REPO=${1:-/repo}
OUT=$(mktemp)
(cd "$REPO" && go test -mod=mod -json -vet=off -count=1 -timeout 25m ./... > "$OUT" 2>/dev/null)
python3 - "$OUT" <<'PY'
import json,sys
passed=set()
for l in open(sys.argv[1]):
    try: e=json.loads(l)
    except Exception: continue
    if e.get('Action')=='pass' and e.get('Test'):
        passed.add(e['Package']+'::'+e['Test'])
try:
    base=json.load(open('/root/.vp/BASELINE.json'))['stable_pass']
except Exception:
    base=[]
missing=[t for t in base if t not in passed]
print(f"baseline: {len(base)-len(missing)}/{len(base)} stable tests pass; {len(passed)} passed in total")
for t in missing[:20]: print("  MISSING", t)
sys.exit(1 if missing else 0)
PY
rc=$?
rm -f "$OUT"
exit $rc
