#!/usr/bin/env python3
"""Writes seeded/<id>/meta.json from seeded/meta_src.py (what each change is and
needs) plus the result lines of scripts/mutants_all.sh sweeps, and prints the
markdown table used in DESIGN.md.
usage: seed_meta.py <initial-results>... -- <final-results>...
Result lines: '<patch path> <check> DETECTED|MISSED rc=.. t=..s rule(n) ...'"""
import json, os, re, sys
here = os.path.dirname(os.path.abspath(__file__)); root = os.path.dirname(here)
sys.path.insert(0, os.path.join(root, 'seeded'))
from meta_src import META
args = sys.argv[1:]
k = args.index('--') if '--' in args else len(args)
def load(files):
    out = {}
    for f in files:
        for l in open(f):
            m = re.match(r'\S*?(r\d+-C\d\d)/patch\.diff (C\d\d) (DETECTED|MISSED)(?: rc=\S+ t=\S+ ?(.*))?', l.strip())
            if m:
                out[(m.group(1), m.group(2))] = (m.group(3), (m.group(4) or '').strip())
    return out
initial, final = load(args[:k]), load(args[k+1:])
rows = []
for sid in sorted(META, key=lambda x: (int(x[1:x.index('-')]), x)):
    prop, change, needs = META[sid]
    d = os.path.join(root, 'seeded', sid)
    det = sorted(c for (s, c), (v, _) in final.items() if s == sid and v == 'DETECTED')
    rules = {c: final[(sid, c)][1] for c in det}
    ini = initial.get((sid, prop), ('not run', ''))[0]
    meta = {
        'id': sid, 'breaks_property': prop, 'source': 'independent sub-agent given only the property text and a scratch worktree (round %s)' % sid[1:sid.index('-')],
        'change': change, 'needs_to_manifest': needs,
        'confirmed': 'scripts/seed_verify.sh seeded/%s: patch applies and compiles on /repo HEAD; scripts/baseline.sh on the patched tree: 766/766 stable tests pass; demo_test.go (go test -run TestSeeded) FAILS with the patch and PASSES without it' % sid,
        'checks_run': 'scripts/mutants_all.sh seeded/MAP.tsv (quick tier of the listed checks on a scratch worktree with the patch applied)',
        'native_check_initially': ini,
        'detected_by': det, 'rules_fired': rules,
    }
    json.dump(meta, open(os.path.join(d, 'meta.json'), 'w'), indent=1)
    others = [c for c in det if c != prop]
    rows.append(f"| `{sid}` | {prop} | {change.split(':')[0]} — {needs.split(';')[0][:110]} | {ini.lower()} | {'**'+prop+'**' if prop in det else 'MISSED'}{(', ' + ', '.join(others)) if others else ''} |")
print("| seeded change | property | where / first ingredient | native check before strengthening | detected now by |")
print("|---|---|---|---|---|")
print("\n".join(rows))
