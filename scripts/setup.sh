#!/bin/bash
# Builds the framework from files on disk only (offline) and warms the build cache.
set -e
cd "$(dirname "$0")/.."
export GOFLAGS=-mod=mod GOPROXY=off GOSUMDB=off GOTOOLCHAIN=local
mkdir -p bin evidence
go build -tags verif -o bin/digmc ./cmd/digmc
./bin/digmc list
