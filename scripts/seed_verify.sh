#!/bin/bash
# usage: scripts/seed_verify.sh <dir with patch.diff + demo_test.go>
# Development helper: confirms, in a scratch worktree of /repo, that a seeded
# change (1) applies and compiles, (2) keeps the repository's own suite green,
# (3) makes its demonstration fail while the demonstration passes without it.
export GOFLAGS=-mod=mod GOPROXY=off GOSUMDB=off GOTOOLCHAIN=local
D=$(realpath "$1")
T=$(mktemp -d /tmp/seedver.XXXXXX)
git -C /repo worktree add --detach "$T/w" HEAD >/dev/null 2>&1 || exit 2
trap 'git -C /repo worktree remove --force "$T/w"; rm -rf "$T"' EXIT
cd "$T/w"
cp "$D"/demo_test.go ./zz_seeded_demo_test.go
if go test -vet=off -count=1 -run 'TestSeeded' . > "$T/orig.log" 2>&1; then echo "demo-on-original: PASS"; else echo "demo-on-original: FAIL (bad demo)"; tail -5 "$T/orig.log"; fi
rm zz_seeded_demo_test.go
if ! git apply "$D/patch.diff"; then echo "patch: DOES NOT APPLY"; exit 1; fi
if ! go build ./... ; then echo "patch: DOES NOT COMPILE"; exit 1; fi
if ! go vet -tags verif . >/dev/null 2>&1; then go build -tags verif ./... || echo "patch: does not compile with -tags verif"; fi
/verif/scripts/baseline.sh "$T/w" | head -3
cp "$D"/demo_test.go ./zz_seeded_demo_test.go
if go test -vet=off -count=1 -run 'TestSeeded' . > "$T/mut.log" 2>&1; then echo "demo-on-changed: PASS (change not demonstrated)"; else echo "demo-on-changed: FAIL (as intended)"; grep -E "^\s+---|FAIL|panic|fatal" "$T/mut.log" | head -5; fi
