#!/usr/bin/env python3
"""Generates MANIFEST.json from the table below (single source of truth)."""
import json, subprocess, os
here = os.path.dirname(os.path.abspath(__file__))
root = os.path.dirname(here)
props = [json.loads(l) for l in open(os.path.join(root, 'properties.jsonl'))]
claimed = json.load(open(os.path.join(here, 'claims.json')))
hook_commits = subprocess.run(['git','-C','/repo','log','--format=%H','--','verif_hooks.go'],capture_output=True,text=True).stdout.split()
checks, na = [], []
for p in props:
    pid = p['id']
    c = claimed.get(pid)
    if not c:
        na.append({"property_id": pid, "reason": "check not built yet (work in progress; planned as bounded exhaustive exploration per DESIGN.md §4)"})
        continue
    checks.append({
        "property_id": pid,
        "quick_cmd": f"scripts/check.sh {pid} quick",
        "thorough_cmd": f"scripts/check.sh {pid} thorough",
        "evidence_file": f"/verif/evidence/{pid}.json",
        "replay_cmd_template": "bin/digmc replay {path}",
        "engine": "digmc",
        "level_claimed": {"category": "model_checking", "text": c['text'], "design_ref": c.get('design_ref', 'DESIGN.md §4 ' + pid)},
        "level_note": c['note'],
        "technique": c['technique'],
    })
m = {
    "version": 1,
    "setup_cmd": "scripts/setup.sh",
    "hooks": {
        "guard": "verif",
        "enable": "go build -tags verif (module /verif has `replace go.uber.org/dig => /repo`, so every check rebuilds from /repo's working tree)",
        "baseline_off_cmd": "/verif/scripts/baseline.sh /repo",
        "source_commits": hook_commits,
        "add_only": True,
    },
    "engines": [{
        "name": "digmc",
        "path": "/verif/cmd/digmc",
        "serves_properties": [c['property_id'] for c in checks],
        "kind_free_text": "hand-written explicit-state explorer: level-synchronous BFS over real dig containers (successor = replay of the path on a fresh container + one op), fingerprint dedup, worker subprocesses, per-transition oracles (reference model / differential product machine), plus exhaustive input-shape enumerations",
    }],
    "checks": checks,
    "not_applicable": na,
    "notes": "All checks are bounded exhaustive explorations (no sampling); bounds completed are reported in each evidence file. See DESIGN.md.",
}
json.dump(m, open(os.path.join(root, 'MANIFEST.json'), 'w'), indent=1)
print(f"{len(checks)} claimed, {len(na)} not claimed")
