#!/bin/bash
# usage: scripts/mutants.sh [-b] <patch-file> <property-id>... 
# Applies a property-breaking change to /repo's working tree, (with -b) runs the
# repository's own test suite on it, runs the named checks (quick tier), and
# undoes the change. Prints one line per check: DETECTED / MISSED.
cd "$(dirname "$0")/.."
BASE=0
if [ "$1" = "-b" ]; then BASE=1; shift; fi
PATCH=$(realpath "$1"); shift
if ! git -C /repo diff --quiet; then echo "/repo has uncommitted changes"; exit 2; fi
if ! git -C /repo apply --recount "$PATCH" 2>/dev/null && ! (cd /repo && patch -p1 -s -f < "$PATCH" >/dev/null 2>&1); then
  echo "PATCH-DOES-NOT-APPLY $(basename $PATCH)"; git -C /repo checkout -- . ; find /repo -name '*.orig' -o -name '*.rej' | xargs -r rm -f; exit 3
fi
find /repo -name '*.orig' -o -name '*.rej' | xargs -r rm -f
trap 'git -C /repo checkout -- .' EXIT
if [ $BASE = 1 ]; then
  if scripts/baseline.sh /repo >/tmp/mut_base.$$ 2>&1; then echo "  baseline: still passes ($(head -1 /tmp/mut_base.$$))"; else echo "  baseline: KILLED BY SUITE"; cat /tmp/mut_base.$$ | head -5; fi
  rm -f /tmp/mut_base.$$
fi
for ID in "$@"; do
  OUT=$(VERIF_EVIDENCE_DIR=/tmp/mut_evid.$$ scripts/check.sh $ID quick 2>/dev/null)
  RC=$?
  if echo "$OUT" | grep -q "^VIOLATION property=$ID"; then
    echo "  $(basename $PATCH .patch) $ID: DETECTED (exit $RC) $(echo "$OUT" | grep -c '^VIOLATION') violation lines"
  else
    echo "  $(basename $PATCH .patch) $ID: MISSED (exit $RC)"
  fi
done
rm -rf /tmp/mut_evid.$$
